//! C06 — the library reads back its own SGR output and applies it with SGR semantics.
//!
//! (a) round trip: faces / face modifications / characters -> TTYEncoder (true colour) ->
//!     TTYCommandDecoder under generated chunking -> must be the same face changes and
//!     characters (for everything a face-modification record can express).
//! (b) cell writer: histories of SGR sequences (standard spellings) and text written through
//!     `CellWrite::tty_writer` in arbitrary chunks; the faces of the produced cells must follow
//!     the reference SGR state machine (`refsgr`), starting from a generated initial face.
//!     The parent of the writer is a recording target that either accepts every cell or refuses
//!     cells (`Refuse`: out of space after k cells until the application rewinds it through
//!     `parent()`, or a clipped target showing the first columns of each line); whatever the
//!     parent refuses, the cells it does accept must carry the face of the state machine over
//!     all bytes written so far.
//!     The history is also written in SEGMENTS (cut at item boundaries), each through its own
//!     writer instance over the same parent (`parent.by_ref().tty_writer()` per piece of output,
//!     dropped afterwards without flush): the SGR state is the parent's current face, so the
//!     cells must be those of one instance.
//! (a') sinks with short writes: the round-trip stream of (a) is also encoded into a writer that
//!     accepts a few bytes per `write` call; what reaches it must decode to the same history.

use crate::c05::{self, FaceSpec, FmSpec};
use crate::engine::*;
use crate::hostile;
use crate::refsgr::{self, SgrParam, SgrState};
use proptest::prelude::*;
use serde::{Deserialize, Serialize};
use std::io::Write;
use surf_n_term::decoder::{Decoder, TTYCommandDecoder};
use surf_n_term::encoder::{ColorDepth, Encoder, TTYEncoder};
use surf_n_term::render::CellKind;
use surf_n_term::{Cell, CellWrite, Face, FaceAttrs, FaceModify, TerminalCaps, TerminalCommand, UnderlineStyle};

pub struct C06;

#[derive(Clone, Debug, Serialize, Deserialize)]
pub enum RtItem {
    Face(FaceSpec),
    Modify(FmSpec),
    Char(char),
}

#[derive(Clone, Debug, Serialize, Deserialize)]
pub enum WItem {
    Sgr(Vec<SgrParam>),
    Text(String),
}

/// how the parent of the cell writer treats the cells it is offered (`CellWrite::put_cell`
/// returns false = "out of space")
#[derive(Clone, Copy, Debug, Default, PartialEq, Eq, Serialize, Deserialize)]
pub enum Refuse {
    /// accepts every cell (collect-everything target such as `Text`)
    #[default]
    Never,
    /// a full target: accepts `k` cells, then refuses until the application rewinds it
    /// (as `writer.parent().set_cursor(origin)` does for a surface writer)
    Full(u8),
    /// a clipped target: lines of `width` cells of which only the first `visible` are
    /// accepted, the others refused (a rewind starts a new line)
    Clip { width: u8, visible: u8 },
}

#[derive(Clone, Debug, Serialize, Deserialize)]
pub enum Case {
    /// `failed_before`: the encoder first encoded item `i % len` into a writer that refuses
    /// after `n` bytes (see c05::RefusingWriter); that call's outcome is ignored
    RoundTrip {
        items: Vec<RtItem>,
        cuts: Vec<u16>,
        #[serde(default)]
        failed_before: Option<(u8, u8)>,
        /// the same items are also encoded (fresh encoder, same history) into a writer that
        /// accepts at most `pattern[call % len]` bytes per write call (see c05::ShortSink)
        #[serde(default)]
        short_sink: Option<Vec<u8>>,
    },
    /// `refuse`: the parent's behaviour; `rewinds`: between the writes, before item
    /// `r % (len + 1)`, the harness rewinds the parent through `writer.parent()` (only generated
    /// for refusing parents; a rewind is always a write boundary)
    Writer {
        initial: FaceSpec,
        items: Vec<WItem>,
        cuts: Vec<u16>,
        #[serde(default)]
        refuse: Refuse,
        #[serde(default)]
        rewinds: Vec<u8>,
        /// writer instances: before item `s % (len + 1)` the writer is dropped (no flush, no
        /// `parent()` call) and a new `tty_writer()` is made over the same parent; a segment
        /// boundary is always a write boundary and lies between complete items
        #[serde(default)]
        segments: Vec<u8>,
    },
}

fn esc(b: &[u8]) -> String {
    String::from_utf8_lossy(b).escape_debug().to_string()
}

fn expected_for_face(f: &FaceSpec) -> FaceModify {
    let face = f.to_face();
    let style = face.attrs.underline();
    FaceModify {
        reset: true,
        fg: face.fg,
        bg: face.bg,
        underline: (style != UnderlineStyle::None).then_some(style),
        underline_color: None,
        bold: face.attrs.contains(FaceAttrs::BOLD).then_some(true),
        italic: face.attrs.contains(FaceAttrs::ITALIC).then_some(true),
        blink: face.attrs.contains(FaceAttrs::BLINK).then_some(true),
        strike: face.attrs.contains(FaceAttrs::STRIKE).then_some(true),
    }
}

/// decode `bytes` with the library's command decoder as a single buffer, in the generated
/// chunks and byte at a time; Err((class, message)) if any of them differs from `expected`
fn decode_check(bytes: &[u8], cuts: &[u16], expected: &[TerminalCommand], items: &[RtItem]) -> Result<Result<(), (&'static str, String)>, Fail> {
    let run = |chunks: &[&[u8]]| -> Result<Vec<TerminalCommand>, Fail> {
        let mut dec = TTYCommandDecoder::new();
        let mut out = Vec::new();
        for c in chunks {
            let mut cur = std::io::Cursor::new(*c);
            dec.decode_into(&mut cur, &mut out)
                .map_err(|e| Fail::new("roundtrip/decode-error", format!("{e:?}")))?;
        }
        Ok(out)
    };
    let cutpos = hostile::cuts_from(cuts, bytes.len());
    let variants: Vec<(&str, Vec<&[u8]>)> = vec![
        ("single buffer", vec![bytes]),
        ("generated chunks", hostile::split(bytes, &cutpos)),
        ("byte at a time", bytes.chunks(1).collect()),
    ];
    for (what, chunks) in variants {
        let got = guard(|| run(&chunks))?;
        if got != expected {
            let idx = got.iter().zip(expected.iter()).position(|(a, b)| a != b).unwrap_or(got.len().min(expected.len()));
            let class = match items.iter().filter(|i| !matches!(i, RtItem::Modify(m) if m.is_noop())).nth(idx) {
                Some(RtItem::Face(_)) => "face",
                Some(RtItem::Modify(_)) => "face-modify",
                Some(RtItem::Char(_)) => "char",
                None => "extra",
            };
            return Ok(Err((
                class,
                format!(
                    "bytes \"{}\" ({what}): item #{idx} read back as {:?}, written {:?}; items {:?}",
                    esc(bytes),
                    got.get(idx),
                    expected.get(idx),
                    items
                ),
            )));
        }
    }
    Ok(Ok(()))
}

fn check_roundtrip(items: &[RtItem], cuts: &[u16], failed_before: Option<(u8, u8)>, short_sink: Option<&[u8]>) -> Outcome {
    let caps = TerminalCaps { depth: ColorDepth::TrueColor, glyphs: false, kitty_keyboard: false };
    let to_cmd = |item: &RtItem| match item {
        RtItem::Face(f) => TerminalCommand::Face(f.to_face()),
        RtItem::Modify(m) => TerminalCommand::FaceModify(m.to_lib()),
        RtItem::Char(c) => TerminalCommand::Char(*c),
    };
    // an encoder with the case's history
    let encoder = || -> Result<TTYEncoder, Fail> {
        let mut enc = TTYEncoder::new(caps.clone());
        if let Some((i, room)) = failed_before {
            let cmd = to_cmd(&items[i as usize % items.len()]);
            let mut w = c05::RefusingWriter { room: room as usize };
            let _ = guard_val(|| enc.encode(&mut w, cmd))?;
        }
        Ok(enc)
    };
    let mut enc = encoder()?;
    let mut bytes = Vec::new();
    let mut expected: Vec<TerminalCommand> = Vec::new();
    for item in items {
        match item {
            RtItem::Face(f) => expected.push(TerminalCommand::FaceModify(expected_for_face(f))),
            RtItem::Modify(m) => {
                if !m.is_noop() {
                    expected.push(TerminalCommand::FaceModify(m.to_lib()));
                }
            }
            RtItem::Char(c) => expected.push(TerminalCommand::Char(*c)),
        }
        let cmd = to_cmd(item);
        guard_val(|| enc.encode(&mut bytes, cmd))?
            .map_err(|e| Fail::new("roundtrip/encode-error", format!("{e:?}")))?;
    }
    if let Err((class, msg)) = decode_check(&bytes, cuts, &expected, items)? {
        return Err(Fail::new(format!("roundtrip/{class}"), msg));
    }
    // the writer's side of "every chunking of the written bytes": a sink that takes only a
    // prefix per write call. encode returned Ok, so what reached the sink is what was written
    let mut short_differs = false;
    if let Some(pattern) = short_sink {
        let mut enc = encoder()?;
        let mut sink = c05::ShortSink::new(pattern);
        for item in items {
            let cmd = to_cmd(item);
            guard_val(|| enc.encode(&mut sink, cmd))?.map_err(|e| {
                Fail::new(
                    "roundtrip/short-write-sink/encode-error",
                    format!("{item:?} into a writer accepting at most {pattern:?} bytes per write call (never failing): {e:?}"),
                )
            })?;
        }
        if sink.data != bytes {
            short_differs = true;
            if let Err((class, msg)) = decode_check(&sink.data, cuts, &expected, items)? {
                return Err(Fail::new(
                    format!("roundtrip/short-write-sink/{class}"),
                    format!(
                        "writer accepting at most {pattern:?} bytes per write call (cyclic), encode returned Ok for every item; a Vec receives \"{}\"; what reached the writer: {msg}",
                        esc(&bytes)
                    ),
                ));
            }
        }
    }
    let nt = items.iter().any(|i| match i {
        RtItem::Face(f) => (f.fg.is_some() || f.bg.is_some()) && (f.flags != 0 || f.underline != 0 || (f.fg.is_some() && f.bg.is_some())),
        RtItem::Modify(m) => {
            let after_fg = m.bg.is_some() || m.underline.is_some() || m.underline_color.is_some() || m.bold.is_some() || m.italic.is_some() || m.blink.is_some() || m.strike.is_some();
            (m.fg.is_some() && after_fg) || (m.bg.is_some() && (m.underline.is_some() || m.bold.is_some() || m.strike.is_some()))
        }
        _ => false,
    });
    Ok(Pass::new(nt)
        .label("roundtrip")
        .label_if(items.iter().any(|i| matches!(i, RtItem::Char(c) if (*c as u32) >= 0x80)), "non-ascii-char")
        .label_if(items.iter().any(|i| matches!(i, RtItem::Modify(m) if m.underline_color.is_some())), "underline-colour")
        .label_if(nt, "colour-followed-by-parameter")
        .label_if(short_sink.is_some(), "short-write-sink")
        .label_if(short_sink.is_some_and(|p| p.iter().all(|l| *l <= 3)), "short-write-sink:1-3-bytes")
        .label_if(short_differs, "short-write-sink:other-bytes-same-meaning"))
}

/// recording parent of the cell writer; `cells` = the character cells it accepted
#[derive(Default)]
struct Recorder {
    face: Face,
    wraps: bool,
    cells: Vec<(char, Face)>,
    other: usize,
    refuse: Refuse,
    /// cells offered since the last rewind
    offered: usize,
    refused: usize,
}

impl Refuse {
    /// is the cell offered as number `offered` (from 0) since the last rewind accepted?
    fn accepts(self, offered: usize) -> bool {
        match self {
            Refuse::Never => true,
            Refuse::Full(k) => offered < k as usize,
            Refuse::Clip { width, visible } => offered % (width as usize).max(1) < visible as usize,
        }
    }
}

impl Recorder {
    /// what an application does through `writer.parent()` to reuse a full target
    fn rewind(&mut self) {
        self.offered = 0;
    }
}

impl CellWrite for Recorder {
    fn face(&self) -> Face {
        self.face
    }
    fn set_face(&mut self, face: Face) -> Face {
        std::mem::replace(&mut self.face, face)
    }
    fn wraps(&self) -> bool {
        self.wraps
    }
    fn set_wraps(&mut self, wraps: bool) -> bool {
        std::mem::replace(&mut self.wraps, wraps)
    }
    fn put_cell(&mut self, cell: Cell) -> bool {
        let accept = self.refuse.accepts(self.offered);
        self.offered += 1;
        if !accept {
            self.refused += 1;
            return false;
        }
        match cell.kind() {
            CellKind::Char(c) => self.cells.push((*c, cell.face())),
            _ => self.other += 1,
        }
        true
    }
}

enum Step<'a> {
    Write(&'a [u8]),
    Rewind,
    /// the writer instance is dropped and a new one made over the same parent
    NewWriter,
}

/// the writes of one chunking (`cuts` = sorted cut offsets) with the rewinds and the changes of
/// writer instance (sorted byte offsets) in between; both are always write boundaries
fn script<'a>(bytes: &'a [u8], cuts: &[usize], rewinds: &[usize], new_writers: &[usize]) -> Vec<Step<'a>> {
    // kind: 0 cut, 1 rewind, 2 new writer instance
    let mut events: Vec<(usize, u8)> = cuts.iter().map(|c| ((*c).min(bytes.len()), 0)).collect();
    events.extend(rewinds.iter().map(|r| ((*r).min(bytes.len()), 1)));
    events.extend(new_writers.iter().map(|r| ((*r).min(bytes.len()), 2)));
    events.sort();
    let mut steps = Vec::new();
    let mut prev = 0;
    for (at, kind) in events {
        // duplicate cuts give empty writes, as in `hostile::split`
        if kind == 0 || at > prev {
            steps.push(Step::Write(&bytes[prev..at]));
            prev = at;
        }
        match kind {
            1 => steps.push(Step::Rewind),
            2 => steps.push(Step::NewWriter),
            _ => {}
        }
    }
    steps.push(Step::Write(&bytes[prev..]));
    steps
}

/// first cell of `got` that cannot be placed when `got` is matched, in order, into `expected`
/// (None: `got` is a subsequence of `expected`)
fn first_unplaced<T>(got: &[T], expected: &[T], same: impl Fn(&T, &T) -> bool) -> Option<usize> {
    let mut j = 0;
    for (i, g) in got.iter().enumerate() {
        while j < expected.len() && !same(&expected[j], g) {
            j += 1;
        }
        if j == expected.len() {
            return Some(i);
        }
        j += 1;
    }
    None
}

fn check_writer(initial: &FaceSpec, items: &[WItem], cuts: &[u16], refuse: Refuse, rewinds: &[u8], segments: &[u8]) -> Outcome {
    let mut rewind_items: Vec<usize> = rewinds.iter().map(|r| *r as usize % (items.len() + 1)).collect();
    rewind_items.sort();
    let mut segment_items: Vec<usize> = segments.iter().map(|r| *r as usize % (items.len() + 1)).collect();
    segment_items.sort();
    let mut segment_at: Vec<usize> = Vec::new();
    // an instance whose last item is an SGR sequence, followed by an instance that writes text
    // before any other SGR sequence: the state handed over through the parent decides the face
    let mut sgr_ends_instance = false;
    let mut handover = false;
    let mut bytes = Vec::new();
    let mut st = SgrState::from_face(&initial.to_face());
    let mut expected: Vec<(char, Face)> = Vec::new();
    let mut rewind_at: Vec<usize> = Vec::new();
    // model of the parent if every character is offered (for the labels only):
    // 0 nothing refused yet, 1 a cell was refused, 2 .. and an SGR sequence followed,
    // 3 .. and a cell was accepted after that
    let (mut offered, mut stage) = (0usize, 0u8);
    for (i, item) in items.iter().enumerate() {
        for _ in rewind_items.iter().filter(|r| **r == i) {
            rewind_at.push(bytes.len());
            offered = 0;
        }
        for _ in segment_items.iter().filter(|r| **r == i) {
            segment_at.push(bytes.len());
            if i > 0 && matches!(items[i - 1], WItem::Sgr(_)) {
                sgr_ends_instance = true;
                handover |= matches!(item, WItem::Text(_));
            }
        }
        match item {
            WItem::Sgr(params) => {
                bytes.extend(b"\x1b[");
                bytes.extend(refsgr::print(params).as_bytes());
                bytes.push(b'm');
                st.apply_all(params);
                if stage == 1 {
                    stage = 2;
                }
            }
            WItem::Text(s) => {
                bytes.extend(s.as_bytes());
                for c in s.chars() {
                    expected.push((c, st.to_face()));
                    match (refuse.accepts(offered), stage) {
                        (false, 0) => stage = 1,
                        (true, 2) => stage = 3,
                        _ => {}
                    }
                    offered += 1;
                }
            }
        }
    }
    rewind_at.extend(rewind_items.iter().filter(|r| **r == items.len()).map(|_| bytes.len()));
    segment_at.extend(segment_items.iter().filter(|r| **r == items.len()).map(|_| bytes.len()));
    let run = |steps: &[Step]| -> Result<Vec<(char, Face)>, Fail> {
        let mut rec = Recorder { face: initial.to_face(), refuse, ..Default::default() };
        // one writer instance per run of steps between two `NewWriter`s, as the library's idiom
        // `target.by_ref().tty_writer()` per piece of output; dropped without flush
        for instance in steps.split(|s| matches!(s, Step::NewWriter)) {
            let mut w = rec.by_ref().tty_writer();
            for step in instance {
                match step {
                    Step::Write(c) => w
                        .write_all(c)
                        .map_err(|e| Fail::new("writer/io-error", format!("write failed: {e:?}")))?,
                    Step::Rewind => w.parent().rewind(),
                    Step::NewWriter => {}
                }
            }
        }
        Ok(rec.cells)
    };
    let cutpos = hostile::cuts_from(cuts, bytes.len());
    let every: Vec<usize> = (1..bytes.len()).collect();
    let mut variants: Vec<(&str, bool, Vec<Step>)> = vec![
        ("single write", false, script(&bytes, &[], &rewind_at, &[])),
        ("generated chunks", false, script(&bytes, &cutpos, &rewind_at, &[])),
        ("byte at a time", false, script(&bytes, &every, &rewind_at, &[])),
    ];
    if !segment_at.is_empty() {
        variants.extend([
            ("one write per writer instance", true, script(&bytes, &[], &rewind_at, &segment_at)),
            ("generated chunks inside writer instances", true, script(&bytes, &cutpos, &rewind_at, &segment_at)),
            ("byte at a time inside writer instances", true, script(&bytes, &every, &rewind_at, &segment_at)),
        ]);
    }
    let show = |steps: &[Step]| -> String {
        let writes: Vec<String> = steps
            .iter()
            .map(|s| match s {
                Step::Write(c) => format!("\"{}\"", esc(c)),
                Step::Rewind => "<rewind>".to_string(),
                Step::NewWriter => "<writer dropped, new tty_writer() over the same parent>".to_string(),
            })
            .collect();
        writes.join(", ")
    };
    for (what, segmented, steps) in variants {
        let got = guard(|| run(&steps))?;
        // the face lives in the parent and an instance only keeps the state of an unfinished
        // sequence, so instances that change between complete items are one writer
        let oracle = if segmented { "writer/instances" } else { "writer" };
        if refuse == Refuse::Never {
            // the parent accepts everything: exactly the cells of the history
            if got != expected {
                let idx = got.iter().zip(expected.iter()).position(|(a, b)| a != b).unwrap_or(got.len().min(expected.len()));
                let class = match (got.get(idx), expected.get(idx)) {
                    (Some((gc, _)), Some((wc, _))) if gc != wc => "text",
                    (Some(_), Some(_)) => "face",
                    _ => "cell-count",
                };
                let how = if segmented { format!("{what}: [{}]", show(&steps)) } else { what.to_string() };
                return Err(Fail::new(
                    format!("{oracle}/{class}"),
                    format!(
                        "bytes \"{}\" from initial face {:?} ({how}): cell #{idx} is {:?}, SGR semantics give {:?}",
                        esc(&bytes),
                        initial.to_face(),
                        got.get(idx),
                        expected.get(idx)
                    ),
                ));
            }
        } else if let Some(idx) = first_unplaced(&got, &expected, |a, b| a == b) {
            // the statement does not say which characters a writer still offers to a parent
            // that refused one, so only this is required: the cells the parent accepted are,
            // in order, cells of the history with the face SGR semantics give them there
            let class = match first_unplaced(&got[..=idx], &expected, |a, b| a.0 == b.0) {
                None => "face",
                Some(_) => "text",
            };
            let candidates: Vec<&Face> = expected.iter().filter(|(c, _)| *c == got[idx].0).map(|(_, f)| f).collect();
            return Err(Fail::new(
                format!("{oracle}/refusing-parent/{class}"),
                format!(
                    "parent {:?}, initial face {:?}, writes ({what}) [{}]: accepted cell #{idx} {:?} (after {:?}) is not a cell of the written history in this order; SGR semantics over all bytes written give {:?} the face(s) {:?}",
                    refuse,
                    initial.to_face(),
                    show(&steps),
                    got[idx],
                    &got[idx.saturating_sub(2)..idx],
                    got[idx].0,
                    candidates
                ),
            ));
        }
    }
    // non-triviality: a set followed later by a clear of the same attribute, two underline
    // styles, or strike
    let flat: Vec<&SgrParam> = items.iter().filter_map(|i| match i { WItem::Sgr(p) => Some(p.iter()), _ => None }).flatten().collect();
    let pos = |f: fn(&SgrParam) -> bool| flat.iter().position(|p| f(p));
    let set_clear = [
        (pos(|p| matches!(p, SgrParam::Bold)), flat.iter().rposition(|p| matches!(p, SgrParam::BoldOff | SgrParam::Reset | SgrParam::Empty))),
        (pos(|p| matches!(p, SgrParam::Italic)), flat.iter().rposition(|p| matches!(p, SgrParam::ItalicOff))),
        (pos(|p| matches!(p, SgrParam::Underline | SgrParam::UnderlineSub(1..=5) | SgrParam::DoubleUnderline)), flat.iter().rposition(|p| matches!(p, SgrParam::UnderlineOff | SgrParam::UnderlineSub(0)))),
        (pos(|p| matches!(p, SgrParam::Blink)), flat.iter().rposition(|p| matches!(p, SgrParam::BlinkOff))),
        (pos(|p| matches!(p, SgrParam::Strike)), flat.iter().rposition(|p| matches!(p, SgrParam::StrikeOff))),
    ]
    .iter()
    .any(|(s, c)| matches!((s, c), (Some(s), Some(c)) if s < c));
    let styles: std::collections::BTreeSet<u8> = flat
        .iter()
        .filter_map(|p| match p {
            SgrParam::Underline => Some(1),
            SgrParam::DoubleUnderline => Some(2),
            SgrParam::UnderlineSub(n) if *n > 0 => Some(*n),
            _ => None,
        })
        .collect();
    let strike = flat.iter().any(|p| matches!(p, SgrParam::Strike));
    let has_text = !expected.is_empty();
    Ok(Pass::new(has_text && (set_clear || styles.len() >= 2 || strike))
        .label("writer")
        .label_if(set_clear, "set-then-clear")
        .label_if(styles.len() >= 2, "two-underline-styles")
        .label_if(strike, "strike")
        .label_if(flat.iter().any(|p| matches!(p, SgrParam::Rgb { .. } | SgrParam::Idx { .. } | SgrParam::Named { .. })), "colours")
        .label_if(refuse != Refuse::Never, "refusing-parent")
        .label_if(stage >= 1, "refusing-parent:cell-refused")
        .label_if(stage >= 3, "refusing-parent:sgr-then-accepted-cell-after-refusal")
        .label_if(refuse != Refuse::Never && !rewind_at.is_empty(), "refusing-parent:rewound")
        .label_if(!segment_at.is_empty(), "writer-instances")
        .label_if(sgr_ends_instance, "writer-instances:sgr-last-in-instance")
        .label_if(handover, "writer-instances:sgr-last-then-text-first"))
}

impl Property for C06 {
    type Case = Case;

    fn fuzz(&self) -> Option<FuzzSpec> {
        // entropy-driven target: libFuzzer's bytes replace the generator's random numbers
        Some(FuzzSpec { target: "gen", jobs: 8, runs: 500_000, max_len: 2048, seeds: 64 })
    }

    fn id(&self) -> &'static str {
        "C06"
    }

    fn isolate(&self) -> bool {
        // embeds TTYCommandDecoder (see C02/C03)
        true
    }

    fn strategy(&self, _tier: Tier) -> BoxedStrategy<Case> {
        let ch = prop_oneof![
            6 => (0x20u32..0x7f).prop_map(|c| char::from_u32(c).unwrap()),
            1 => proptest::sample::select(vec!['m', ';', ':', '[', '0', '\n', '\t', '\u{0}', '\u{7f}', '世', '🤩', '\u{80}', '\u{10ffff}']),
            2 => any::<char>().prop_filter("not ESC", |c| *c != '\u{1b}'),
        ];
        let rt_item = prop_oneof![
            4 => c05::face_spec().prop_map(RtItem::Face),
            4 => c05::fm_spec().prop_map(RtItem::Modify),
            3 => ch.clone().prop_map(RtItem::Char),
        ];
        let cuts = || proptest::collection::vec(any::<u16>(), 0..6);
        let roundtrip = (
            proptest::collection::vec(rt_item, 1..8),
            cuts(),
            proptest::option::weighted(0.2, (any::<u8>(), 0u8..48)),
            proptest::option::weighted(0.25, c05::short_sink_pattern()),
        )
            .prop_map(|(items, cuts, failed_before, short_sink)| Case::RoundTrip { items, cuts, failed_before, short_sink });
        let witem = prop_oneof![
            3 => refsgr::params_strategy(false).prop_map(WItem::Sgr),
            2 => proptest::collection::vec(ch, 1..5).prop_map(|v| WItem::Text(v.into_iter().collect())),
        ];
        let rewinds = |n| proptest::collection::vec(any::<u8>(), 0..n);
        let parent = prop_oneof![
            6 => Just((Refuse::Never, Vec::new())),
            2 => ((0u8..12).prop_map(Refuse::Full), rewinds(4)),
            2 => ((2u8..8, any::<u8>()).prop_map(|(width, v)| Refuse::Clip { width, visible: 1 + v % (width - 1) }), rewinds(3)),
        ];
        // 35% of the writer cases: 1-4 changes of writer instance at item boundaries
        let segments = prop_oneof![13 => Just(Vec::new()), 7 => proptest::collection::vec(any::<u8>(), 1..5)];
        let writer = (c05::face_spec(), proptest::collection::vec(witem, 1..12), cuts(), parent, segments)
            .prop_map(|(initial, items, cuts, (refuse, rewinds), segments)| Case::Writer { initial, items, cuts, refuse, rewinds, segments });
        prop_oneof![1 => roundtrip, 1 => writer].boxed()
    }

    fn check(&self, case: &Case) -> Outcome {
        match case {
            Case::RoundTrip { items, cuts, failed_before, short_sink } => check_roundtrip(items, cuts, *failed_before, short_sink.as_deref()),
            Case::Writer { initial, items, cuts, refuse, rewinds, segments } => check_writer(initial, items, cuts, *refuse, rewinds, segments),
        }
    }

    fn cases(&self, tier: Tier) -> u32 {
        tier.pick(80_000, 800_000)
    }

    fn rule(&self) -> String {
        "(a) 50%: 1-7 items out of Face (optional opaque fg/bg x 32 flag subsets x 6 underline styles) / FaceModify (every field combination incl. underline colour, reset) / Char (any scalar except ESC) encoded by one TTYEncoder in true colour (in one case of five after a failed encode into a writer refusing after 0-47 bytes) and decoded by TTYCommandDecoder as a single buffer, in 1-6 generated chunks and byte at a time; expected = the same face changes (reset + every expressible field for Face) and characters. In one round-trip case of four the items are also encoded, by a fresh encoder with the same history, into a writer that accepts only 1-64 (mostly 1-3) bytes per write call (cyclic pattern of 1-3 limits, always progress, never an error): encode must return Ok and, if other bytes reach that writer than reach the Vec, they must decode to the same history (roundtrip/short-write-sink/<item class>). (b) 50%: histories of 1-11 SGR sequences (1-5 parameters in standard spelling: 0, empty, 1/22, 3/23, 4, 4:0-4:5, 21, 24, 5/25, 9/29, 30-37, 40-47, 90-97, 100-107, 38/48/58 in all four spellings) and text, written through CellWrite::tty_writer from a generated initial face with the same three chunkings into a recording parent. 60% of (b): the parent accepts every cell and every produced cell must carry the face of the reference SGR state machine. 40% of (b): the parent refuses cells (put_cell returns false) - 20% a full target that accepts 0-11 cells and then refuses until rewound, 20% a clipped target that accepts the first 1..width-1 cells of every line of 2-7 cells - and the harness rewinds it through writer.parent() before 0-3 (full) or 0-2 (clipped) generated items (a rewind is a write boundary in all three chunkings); the cells the parent accepted must be, in order, cells of the written history carrying the face the reference state machine (run over ALL bytes written so far, refused or not) gives them (writer/refusing-parent/face, /text). 35% of (b), independent of the parent: the history is additionally written through SEVERAL writer instances over the same parent - 1-4 generated item boundaries at which the writer is dropped (no flush, no parent() call) and a new parent.by_ref().tty_writer() is made - as one write per instance, with the generated chunks and byte at a time inside the instances; the cells must be the same as for one instance, i.e. carry the face of the reference state machine over the whole history (writer/instances/face, /text, /cell-count, writer/instances/refusing-parent/...). non-trivial = (a) a colour followed by at least one more parameter, (b) text plus a set followed later by a clear of the same attribute, two underline styles, or strike".into()
    }

    fn assumptions(&self) -> Vec<String> {
        vec![
            "SGR codes a face-modification record cannot express (2, 7, 27, 39, 49, 53, 59) are outside the generated domain, as the property scopes the claim to what the record can express".into(),
            "reverse video of a Face is not expressible by the record and is ignored in (a); an initial reverse attribute persists until reset in (b)".into(),
            "RGB values of the 16 named colours are the library's pinned table".into(),
            "contract of io::Write the statement's 'every chunking of the written bytes' relies on: write may accept any non-empty prefix of the buffer and the caller offers the rest again; into a writer that always makes progress and never fails encode must return Ok, and the bytes that reached it are the bytes written".into(),
            "writer instances: the escape-sequence cell writer keeps the SGR state in the parent's current face (CellWrite::face/set_face), an instance itself only holds the decoder state of an unfinished sequence; the library's idiom is one short-lived parent.by_ref().tty_writer() per piece of output, written with write!/write_all and dropped (io::Write has no obligation to call flush for bytes to take effect on an unbuffered state machine, and Drop cannot report). So a history cut BETWEEN complete items (SGR sequences, texts) and written through one instance per segment is a chunking of the written bytes and must give the cells of one instance; boundaries inside a sequence are not generated (the unfinished sequence is lost with the instance)".into(),
            "refusing parents: the statement does not say whether the writer still offers characters to a parent that has refused one, so cells may be missing; only accepted cells are judged (a subsequence of the history's cells, matched greedily on character and face), and no particular time of delivery relative to a rewind is required".into(),
        ]
    }
}
