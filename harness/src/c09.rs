//! C09 — text writing stays inside its surface, ignores chunking and loses no cell.
//!
//! Three oracles:
//! (1) containment: a canvas of pairwise different sentinel cells, a window carved out of it by
//!     a chain of `view_mut` / `view_owned` / hand-built strided `Shape` / `transpose` steps
//!     (window = matrix of canvas offsets computed by this module), items written into the
//!     window through every writer path; every canvas cell outside the window must still be
//!     its sentinel.
//! (2) chunk independence: byte paths are executed with the byte stream written in one piece,
//!     in generated pieces (incl. cuts inside UTF-8 characters and `ESC[…m`) and byte by byte;
//!     the whole canvas (and the writer's cursor while it is still inside the surface) must be
//!     identical.
//! (3) no lost cell: a `Text` laid out for max width `w` and rendered into a fresh surface of
//!     exactly the reported size; the row-major scan of written cells must be the sequence of
//!     printable cells of the text (minus the cells an independent layout model places beyond
//!     the right edge when wrapping is off).
//!     A text is not only laid out when it is new: reuse cases keep ONE `Text` (and clones of it)
//!     alive and lay it out + render it several times -- under contexts with and without glyph
//!     support (and different cell sizes), at the same and at other widths, before and after
//!     mutations through `CellWrite` -- and hold every layout + render pair to the same oracle.

use crate::engine::*;
use crate::hostile;
use crate::mockterm::RecTerm;
use proptest::prelude::*;
use proptest::strategy::Union;
use serde::{Deserialize, Serialize};
use std::collections::BTreeMap;
use std::io::Write;
use surf_n_term::render::CellKind;
use surf_n_term::view::{BoxConstraint, Text, Tree, View, ViewContext, ViewLayoutStore};
use surf_n_term::{
    BBox, Cell, CellWrite, Face, FaceAttrs, FillRule, Glyph, Image, Path, Position, RGBA, Shape,
    Size, Surface, SurfaceMut, SurfaceMutView, SurfaceOwned, TerminalSurfaceExt,
};

pub struct C09;

// ---- pools ------------------------------------------------------------------------------

/// sentinel character of the text target surface (never generated as content)
const SENT: char = '\u{2592}';
const NARROW: [char; 12] = ['a', 'b', 'c', 'x', 'y', 'z', '0', '.', ' ', 'A', 'é', 'Ж'];
const WIDE: [char; 4] = ['世', '🤩', '한', 'Ａ'];
const ZERO: [char; 4] = ['\u{301}', '\0', '\u{7}', '\u{200b}'];
const FALLBACKS: [&str; 9] = ["g", "ab", "", "abcdef", "世", "x世y", "🤩🤩", "e\u{301}", "abcdefghijkl"];
const SGRS: [&str; 9] = ["0", "", "1", "31", "4:3", "38;5;100", "38;2;1;2;3", "48:2::9:8:7", "1;4;31"];

/// display width of a generated character, hard coded for the pools (independent of the
/// width table the library uses); anything else falls back to the unicode-width crate
fn cw(c: char) -> usize {
    if NARROW.contains(&c) || c.is_ascii_graphic() {
        1
    } else if WIDE.contains(&c) {
        2
    } else if ZERO.contains(&c) || c == '\n' || c == '\r' || c == '\t' {
        0
    } else {
        unicode_width::UnicodeWidthChar::width(c).unwrap_or(0)
    }
}

fn face(i: u8) -> Face {
    match i % 6 {
        0 => Face::default(),
        1 => Face::new(Some(RGBA::new(200, 10, 10, 255)), None, FaceAttrs::EMPTY),
        2 => Face::new(None, Some(RGBA::new(10, 10, 200, 255)), FaceAttrs::EMPTY),
        3 => Face::new(Some(RGBA::new(1, 2, 3, 255)), Some(RGBA::new(250, 240, 230, 255)), FaceAttrs::UNDERLINE),
        4 => Face::new(None, None, FaceAttrs::BOLD),
        _ => Face::new(Some(RGBA::new(0, 255, 0, 128)), Some(RGBA::new(255, 0, 255, 128)), FaceAttrs::ITALIC),
    }
}

/// canvas sentinel #i: pairwise different (for canvases up to 256 cells) in character and face
fn sentinel(i: usize) -> Cell {
    let ch = char::from_u32(0x2800 + (i % 256) as u32).unwrap();
    let fg = Some(RGBA::new(i as u8, 200, 100, 255));
    let bg = if i % 3 == 0 { None } else { Some(RGBA::new(9, i as u8, 30, if i % 2 == 0 { 255 } else { 128 })) };
    let attrs = if i % 5 == 0 { FaceAttrs::BOLD } else { FaceAttrs::EMPTY };
    Cell::new_char(Face::new(fg, bg, attrs), ch)
}

// ---- case -------------------------------------------------------------------------------

#[derive(Clone, Debug, Serialize, Deserialize)]
pub enum Item {
    /// `face: None` -> `put_char` (current face), `Some(i)` -> `put_cell` with face #i
    Ch { c: char, face: Option<u8> },
    /// glyph of `h`x`w` cells with fallback text
    Glyph { h: u8, w: u8, fb: String, face: Option<u8> },
    /// image covering `h`x`w` cells (`ragged`: one pixel short of a multiple of the cell size)
    Image { h: u8, w: u8, ragged: bool },
    /// change of the current face: `ESC[<SGRS[i]>m` on the tty path, `set_face(face(i))` elsewhere
    Sgr(u8),
}

#[derive(Clone, Debug, Serialize, Deserialize)]
pub enum WStep {
    /// rows/cols as 16-bit fractions of the current axis (always a non-empty range)
    View { r0: u16, r1: u16, c0: u16, c1: u16, owned: bool },
    /// every `rs`-th row and `cs`-th column through a hand-built `Shape`
    Stride { rs: u8, cs: u8 },
    Transpose,
    /// empty selection
    Empty,
}

#[derive(Clone, Debug, Serialize, Deserialize)]
pub struct Window {
    pub h: u8,
    pub w: u8,
    pub steps: Vec<WStep>,
}

#[derive(Clone, Copy, Debug, PartialEq, Eq, Serialize, Deserialize)]
pub enum WPath {
    /// put_cell / put_char / put_glyph / put_image on the `TerminalWriter`
    Cells,
    /// characters as UTF-8 bytes through `impl io::Write for TerminalWriter`
    Io,
    /// ... through `CellWrite::by_ref(&mut writer).utf8_writer()`
    Utf8,
    /// ... through `CellWrite::by_ref(&mut writer).tty_writer()`, face changes as SGR sequences
    Tty,
    /// bytes written into a `Text` (`utf8_writer` / `tty_writer`), text drawn with `draw_view`
    TextSink { tty: bool },
    /// `writer.put_text(&text)`
    PutText,
    /// `window.draw_view(ctx, None, &text)`
    DrawView,
    /// `text.layout_new(loose(h, w))` then `text.render(ctx, window, layout)`
    LayoutRender { h: u8, w: u8 },
}

#[derive(Clone, Debug, Serialize, Deserialize)]
pub struct WriterCase {
    pub window: Window,
    pub glyphs: bool,
    pub ppc: (u8, u8),
    pub wraps: bool,
    pub wface: u8,
    pub path: WPath,
    pub items: Vec<Item>,
    /// cut fractions over the whole byte stream
    pub cuts: Vec<u16>,
    /// cuts placed inside the k-th multi-byte unit (UTF-8 character or escape sequence)
    pub mids: Vec<u16>,
}

#[derive(Clone, Debug, Serialize, Deserialize)]
pub struct TextCase {
    pub glyphs: bool,
    pub ppc: (u8, u8),
    pub wraps: bool,
    pub tface: u8,
    /// maximum width 1..20
    pub w: u8,
    pub items: Vec<Item>,
    /// non-empty: the text is a long-lived object. It is laid out and rendered as above, then the
    /// steps are executed on the same object
    #[serde(default)]
    pub reuse: Vec<ReStep>,
}

/// which object a `ReStep::Show` lays out
#[derive(Clone, Copy, Debug, PartialEq, Eq, Serialize, Deserialize)]
pub enum Who {
    /// the long-lived text itself
    Same,
    /// a clone made for this step and dropped after it
    Clone,
    /// the long-lived text is replaced by a clone of itself first (the original is dropped)
    ReplacedByClone,
}

#[derive(Clone, Debug, Serialize, Deserialize)]
pub enum ReStep {
    /// layout for max width `w` (`None`: the width of the case, i.e. the same width again) under
    /// a context with / without glyph support and `ppc` pixels per cell (`None`: those of the
    /// case), render into a fresh surface of the reported size; held to oracle (3)
    Show { glyphs: bool, w: Option<u8>, ppc: Option<(u8, u8)>, who: Who },
    /// more items written into the text through `CellWrite`
    Push(Vec<Item>),
    /// `set_wraps`
    Wraps(bool),
    /// `clear()` then these items
    Rewrite(Vec<Item>),
}

#[derive(Clone, Debug, Serialize, Deserialize)]
pub enum Case {
    Writer(WriterCase),
    Text(TextCase),
}

// ---- building library objects from items -----------------------------------------------

enum BItem {
    Ch(char, Option<Face>),
    Glyph { glyph: Glyph, face: Option<Face>, h: usize, w: usize },
    Image { image: Image, h: usize, w: usize },
    Sgr(u8),
}

fn build_items(items: &[Item], ppc: (u8, u8)) -> Vec<BItem> {
    let (ph, pw) = (ppc.0.max(1) as usize, ppc.1.max(1) as usize);
    items
        .iter()
        .enumerate()
        .map(|(n, it)| match it {
            Item::Ch { c, face: f } => BItem::Ch(*c, f.map(face)),
            Item::Glyph { h, w, fb, face: f } => BItem::Glyph {
                glyph: Glyph::new(
                    Path::empty(),
                    FillRule::default(),
                    Some(BBox::new((0.0, 0.0), (1.0, 1.0))),
                    Size::new(*h as usize, *w as usize),
                    fb.to_string(),
                    None,
                ),
                face: f.map(face),
                h: *h as usize,
                w: *w as usize,
            },
            Item::Image { h, w, ragged } => {
                let (h, w) = (*h as usize, *w as usize);
                let mut px = Size::new(h * ph, w * pw);
                if *ragged && h > 0 && w > 0 {
                    // still rounds up to h x w cells
                    if ph > 1 {
                        px.height -= 1;
                    }
                    if pw > 1 {
                        px.width -= 1;
                    }
                }
                let image = Image::from(SurfaceOwned::new_with(px, |p| {
                    RGBA::new(n as u8, p.row as u8, p.col as u8, 255)
                }));
                let empty = h == 0 || w == 0;
                BItem::Image { image, h: if empty { 0 } else { h }, w: if empty { 0 } else { w } }
            }
            Item::Sgr(i) => BItem::Sgr(*i),
        })
        .collect()
}

fn put_direct<W: CellWrite>(w: &mut W, item: &BItem) {
    match item {
        BItem::Ch(c, None) => {
            w.put_char(*c);
        }
        BItem::Ch(c, Some(f)) => {
            w.put_cell(Cell::new_char(*f, *c));
        }
        BItem::Glyph { glyph, face: None, .. } => {
            w.put_glyph(glyph.clone());
        }
        BItem::Glyph { glyph, face: Some(f), .. } => {
            w.put_cell(Cell::new_glyph(*f, glyph.clone()));
        }
        BItem::Image { image, .. } => {
            w.put_image(image.clone());
        }
        BItem::Sgr(i) => {
            w.set_face(face(*i));
        }
    }
}

fn build_text(built: &[BItem], wraps: bool, tface: Face) -> Text {
    let mut text = Text::new().with_face(tface).with_wraps(wraps);
    for item in built {
        put_direct(&mut text, item);
    }
    text
}

fn show_items(items: &[Item]) -> String {
    let mut out = String::new();
    let mut in_str = false;
    for it in items {
        if let Item::Ch { c, .. } = it {
            if !in_str {
                out.push_str(" \"");
                in_str = true;
            }
            out.extend(c.escape_debug());
            continue;
        }
        if in_str {
            out.push('"');
            in_str = false;
        }
        match it {
            Item::Glyph { h, w, fb, .. } => out.push_str(&format!(" G({h}x{w},{fb:?})")),
            Item::Image { h, w, .. } => out.push_str(&format!(" I({h}x{w})")),
            Item::Sgr(i) => out.push_str(&format!(" sgr#{i}")),
            Item::Ch { .. } => {}
        }
    }
    if in_str {
        out.push('"');
    }
    out.trim_start().to_string()
}

fn show_cell(cell: &Cell, glyphs: &[(Glyph, usize)], images: &[(Image, usize)]) -> String {
    match cell.kind() {
        CellKind::Char(c) => format!("{:?}", c),
        CellKind::Glyph(g) => match glyphs.iter().find(|(x, _)| x == g) {
            Some((_, n)) => format!("G#{n}"),
            None => "G?".to_string(),
        },
        CellKind::Image(i) => match images.iter().find(|(x, _)| x == i) {
            Some((_, n)) => format!("I#{n}"),
            None => "I?".to_string(),
        },
    }
}

// ---- windows ----------------------------------------------------------------------------

type DynM<'a> = dyn SurfaceMut<Item = Cell> + 'a;
/// window = matrix of canvas offsets
type Win = Vec<Vec<usize>>;

fn frac_range(a: u16, b: u16, n: usize) -> (usize, usize) {
    if n == 0 {
        return (0, 0);
    }
    let s = (a as usize * n) >> 16; // 0..n-1
    let e = s + 1 + ((b as usize * (n - s)) >> 16); // s+1..=n
    (s, e)
}

fn ceil_div(a: usize, b: usize) -> usize {
    a.div_ceil(b.max(1))
}

/// independent model of the window: which canvas offset is at (row, col)
fn model_window(h: usize, w: usize, steps: &[WStep]) -> (Win, (usize, usize)) {
    let mut win: Win = (0..h).map(|r| (0..w).map(|c| r * w + c).collect()).collect();
    let mut dims = (h, w);
    for step in steps {
        match step {
            WStep::View { r0, r1, c0, c1, .. } => {
                let (rs, re) = frac_range(*r0, *r1, dims.0);
                let (cs, ce) = frac_range(*c0, *c1, dims.1);
                if rs < re && cs < ce {
                    win = win[rs..re].iter().map(|row| row[cs..ce].to_vec()).collect();
                    dims = (re - rs, ce - cs);
                } else {
                    win = Vec::new();
                    dims = (0, 0);
                }
            }
            WStep::Stride { rs, cs } => {
                if dims.0 > 0 && dims.1 > 0 {
                    let (rs, cs) = ((*rs).max(1) as usize, (*cs).max(1) as usize);
                    win = win
                        .iter()
                        .step_by(rs)
                        .map(|row| row.iter().step_by(cs).copied().collect())
                        .collect();
                    dims = (ceil_div(dims.0, rs), ceil_div(dims.1, cs));
                }
            }
            WStep::Transpose => {
                let mut t: Win = (0..dims.1).map(|_| Vec::with_capacity(dims.0)).collect();
                for row in &win {
                    for (c, v) in row.iter().enumerate() {
                        t[c].push(*v);
                    }
                }
                win = t;
                dims = (dims.1, dims.0);
            }
            WStep::Empty => {
                win = Vec::new();
                dims = (0, 0);
            }
        }
    }
    if dims.0 == 0 || dims.1 == 0 {
        win = Vec::new();
    }
    (win, dims)
}

/// carve the window out of the library surface and run `k` on it
fn with_window(surf: &mut DynM<'_>, steps: &[WStep], k: &mut dyn FnMut(&mut DynM<'_>)) {
    let Some((step, rest)) = steps.split_first() else {
        return k(surf);
    };
    let (h, w) = (surf.height(), surf.width());
    match step {
        WStep::View { r0, r1, c0, c1, owned } => {
            let (rs, re) = frac_range(*r0, *r1, h);
            let (cs, ce) = frac_range(*c0, *c1, w);
            if *owned {
                let mut v = Surface::view_owned(surf, rs..re, cs..ce);
                with_window(&mut v, rest, k)
            } else {
                let mut s = surf;
                let mut v = SurfaceMut::view_mut(&mut s, rs..re, cs..ce);
                with_window(&mut v, rest, k)
            }
        }
        WStep::Stride { rs, cs } => {
            if h == 0 || w == 0 {
                return with_window(surf, rest, k);
            }
            let (rs, cs) = ((*rs).max(1) as usize, (*cs).max(1) as usize);
            let sh = surf.shape();
            let (h2, w2) = (ceil_div(h, rs), ceil_div(w, cs));
            let last = sh.start + (h2 - 1) * sh.row_stride * rs + (w2 - 1) * sh.col_stride * cs;
            let shape = Shape {
                start: sh.start,
                end: last + 1,
                width: w2,
                height: h2,
                row_stride: sh.row_stride * rs,
                col_stride: sh.col_stride * cs,
            };
            let mut v = SurfaceMutView::new(shape, surf.data_mut());
            with_window(&mut v, rest, k)
        }
        WStep::Transpose => {
            let mut v = Surface::transpose(surf);
            with_window(&mut v, rest, k)
        }
        WStep::Empty => {
            let mut s = surf;
            let mut v = SurfaceMut::view_mut(&mut s, 0usize..0usize, ..);
            with_window(&mut v, rest, k)
        }
    }
}

// ---- writer case ------------------------------------------------------------------------

enum Op<'a> {
    Bytes(Vec<u8>),
    Direct(&'a BItem),
}

#[derive(Clone, Copy, PartialEq, Eq)]
enum UnitKind {
    Utf8,
    Esc,
}

struct Stream<'a> {
    ops: Vec<Op<'a>>,
    total: usize,
    /// multi-byte units: (global start, length, kind)
    units: Vec<(usize, usize, UnitKind)>,
}

fn compile<'a>(built: &'a [BItem], path: WPath) -> Stream<'a> {
    let bytes_path = matches!(path, WPath::Io | WPath::Utf8 | WPath::Tty | WPath::TextSink { .. });
    let tty = matches!(path, WPath::Tty | WPath::TextSink { tty: true });
    let mut ops: Vec<Op<'a>> = Vec::new();
    let mut units = Vec::new();
    let mut total = 0usize;
    let push_bytes = |ops: &mut Vec<Op<'a>>, b: &[u8]| {
        if let Some(Op::Bytes(run)) = ops.last_mut() {
            run.extend_from_slice(b);
        } else {
            ops.push(Op::Bytes(b.to_vec()));
        }
    };
    for item in built {
        match item {
            BItem::Ch(c, _) if bytes_path => {
                let mut buf = [0u8; 4];
                let s = c.encode_utf8(&mut buf).as_bytes();
                if s.len() > 1 {
                    units.push((total, s.len(), UnitKind::Utf8));
                }
                push_bytes(&mut ops, s);
                total += s.len();
            }
            BItem::Sgr(i) if tty => {
                let s = format!("\x1b[{}m", SGRS[*i as usize % SGRS.len()]);
                units.push((total, s.len(), UnitKind::Esc));
                push_bytes(&mut ops, s.as_bytes());
                total += s.len();
            }
            other => ops.push(Op::Direct(other)),
        }
    }
    Stream { ops, total, units }
}

#[derive(Debug)]
struct RunOut {
    canvas: Vec<Cell>,
    cursor: Option<Position>,
    wsize: Size,
    offsets_ok: bool,
    text_cells: Option<Vec<Cell>>,
    /// first error returned by a `write_all` (writing went on with the next chunk)
    io_err: Option<String>,
}

/// write the stream into `w` (bytes through `bytes`, everything else through `direct`);
/// returns the first I/O error, writing continues with the next chunk as a caller could
fn feed<W>(
    w: &mut W,
    stream: &Stream<'_>,
    cuts: &[usize],
    mut bytes: impl FnMut(&mut W, &[u8]) -> std::io::Result<()>,
    mut direct: impl FnMut(&mut W, &BItem),
) -> Option<String> {
    let mut err = None;
    let mut base = 0usize;
    for op in &stream.ops {
        match op {
            Op::Bytes(run) => {
                let local: Vec<usize> = cuts
                    .iter()
                    .filter(|&&c| c > base && c < base + run.len())
                    .map(|c| c - base)
                    .collect();
                for chunk in hostile::split(run, &local) {
                    if let Err(e) = bytes(w, chunk) {
                        err.get_or_insert_with(|| format!("write_all({:?}) failed: {e:?}", String::from_utf8_lossy(chunk)));
                    }
                }
                base += run.len();
            }
            Op::Direct(item) => direct(w, item),
        }
    }
    err
}

fn run_once(c: &WriterCase, built: &[BItem], ctx: &ViewContext, win: &Win, dims: (usize, usize), cuts: &[usize]) -> Result<RunOut, Fail> {
    let (h, w) = (c.window.h as usize, c.window.w as usize);
    let mut canvas = SurfaceOwned::new_with(Size::new(h, w), |p| sentinel(p.row * w + p.col));
    let stream = compile(built, c.path);
    let wface = face(c.wface);
    let mut result: Result<(Option<Position>, Size, bool, Option<Vec<Cell>>, Option<String>), Fail> =
        Err(Fail::new("harness/window-not-visited", "continuation was not called"));
    {
        let res = &mut result;
        with_window(&mut canvas, &c.window.steps, &mut |surf| {
            let wsize = surf.size();
            let shape = surf.shape();
            let offsets_ok = wsize == Size::new(dims.0, dims.1)
                && (0..dims.0).all(|r| (0..dims.1).all(|cc| shape.offset(Position::new(r, cc)) == win[r][cc]));
            let mut s = surf;
            let mut text_cells = None;
            let mut cursor = None;
            let mut io_err = None;
            let r: Result<(), Fail> = (|| {
                match c.path {
                    WPath::Cells | WPath::Io | WPath::Utf8 | WPath::Tty => {
                        let mut writer = TerminalSurfaceExt::writer(&mut s, ctx).with_face(wface).with_wraps(c.wraps);
                        io_err = match c.path {
                            WPath::Cells | WPath::Io => feed(
                                &mut writer,
                                &stream,
                                cuts,
                                |w, b| w.write_all(b),
                                |w, item| put_direct(w, item),
                            ),
                            WPath::Utf8 => {
                                let mut uw = CellWrite::by_ref(&mut writer).utf8_writer();
                                feed(&mut uw, &stream, cuts, |w, b| w.write_all(b), |w, item| put_direct(w.parent(), item))
                            }
                            _ => {
                                let mut tw = CellWrite::by_ref(&mut writer).tty_writer();
                                feed(&mut tw, &stream, cuts, |w, b| w.write_all(b), |w, item| put_direct(w.parent(), item))
                            }
                        };
                        cursor = Some(writer.cursor());
                    }
                    WPath::TextSink { tty } => {
                        let mut text = Text::new().with_face(wface).with_wraps(c.wraps);
                        if tty {
                            let mut tw = CellWrite::by_ref(&mut text).tty_writer();
                            io_err = feed(&mut tw, &stream, cuts, |w, b| w.write_all(b), |w, item| put_direct(w.parent(), item));
                        } else {
                            let mut uw = CellWrite::by_ref(&mut text).utf8_writer();
                            io_err = feed(&mut uw, &stream, cuts, |w, b| w.write_all(b), |w, item| put_direct(w.parent(), item));
                        }
                        text_cells = Some(text.cells().to_vec());
                        s.draw_view(ctx, None, &text)
                            .map_err(|e| Fail::new("writer/draw-view-error", format!("{e:?}")))?;
                    }
                    WPath::PutText => {
                        let text = build_text(built, c.wraps, wface);
                        let mut writer = TerminalSurfaceExt::writer(&mut s, ctx).with_wraps(c.wraps);
                        writer.put_text(&text);
                        cursor = Some(writer.cursor());
                    }
                    WPath::DrawView => {
                        let text = build_text(built, c.wraps, wface);
                        s.draw_view(ctx, None, &text)
                            .map_err(|e| Fail::new("writer/draw-view-error", format!("{e:?}")))?;
                    }
                    WPath::LayoutRender { h, w } => {
                        let text = build_text(built, c.wraps, wface);
                        let mut store = ViewLayoutStore::new();
                        let layout = text
                            .layout_new(ctx, BoxConstraint::loose(Size::new(h as usize, w as usize)), &mut store)
                            .map_err(|e| Fail::new("writer/layout-error", format!("{e:?}")))?;
                        text.render(ctx, SurfaceMut::as_mut(&mut s), layout.view())
                            .map_err(|e| Fail::new("writer/render-error", format!("{e:?}")))?;
                    }
                }
                Ok(())
            })();
            *res = r.map(|()| (cursor, wsize, offsets_ok, text_cells, io_err));
        });
    }
    let (cursor, wsize, offsets_ok, text_cells, io_err) = result?;
    Ok(RunOut { canvas: canvas.to_vec(), cursor, wsize, offsets_ok, text_cells, io_err })
}

fn path_name(p: WPath) -> &'static str {
    match p {
        WPath::Cells => "cells",
        WPath::Io => "io-write",
        WPath::Utf8 => "utf8-writer",
        WPath::Tty => "tty-writer",
        WPath::TextSink { tty: false } => "text-sink-utf8",
        WPath::TextSink { tty: true } => "text-sink-tty",
        WPath::PutText => "put-text",
        WPath::DrawView => "draw-view",
        WPath::LayoutRender { .. } => "layout-render",
    }
}

fn window_class(win: &Window) -> &'static str {
    let strided = win.steps.iter().any(|s| matches!(s, WStep::Stride { rs, cs } if *rs > 1 || *cs > 1));
    let transposed = win.steps.iter().filter(|s| matches!(s, WStep::Transpose)).count() % 2 == 1;
    match (strided, transposed) {
        (true, true) => "strided+transposed",
        (true, false) => "strided",
        (false, true) => "transposed",
        (false, false) => "plain",
    }
}

fn check_writer(c: &WriterCase) -> Outcome {
    let (h, w) = (c.window.h as usize, c.window.w as usize);
    let term = RecTerm::new(Size::new(24, 80), Size::new(c.ppc.0.max(1) as usize, c.ppc.1.max(1) as usize), c.glyphs);
    let ctx = term.ctx();
    let built = build_items(&c.items, c.ppc);
    let (win, dims) = model_window(h, w, &c.window.steps);
    let mut inside = vec![false; h * w];
    for off in win.iter().flatten() {
        inside[*off] = true;
    }
    let outside_n = inside.iter().filter(|b| !**b).count();
    let stream = compile(&built, c.path);
    let bytes_path = stream.total > 0;
    let wclass = window_class(&c.window);
    let pname = path_name(c.path);

    // partitions
    let mut gen_cuts = hostile::cuts_from(&c.cuts, stream.total);
    let multi: Vec<&(usize, usize, UnitKind)> = stream.units.iter().collect();
    if !multi.is_empty() {
        for m in &c.mids {
            let (start, len, _) = *multi[(*m as usize >> 4) % multi.len()];
            gen_cuts.push(start + 1 + (*m as usize & 15) % (len - 1));
        }
    }
    gen_cuts.sort();
    gen_cuts.dedup();
    let all_cuts: Vec<usize> = (1..stream.total).collect();
    let variants: Vec<(&str, &[usize])> = if bytes_path {
        vec![("single write", &[][..]), ("generated chunks", &gen_cuts[..]), ("byte at a time", &all_cuts[..])]
    } else {
        vec![("single write", &[][..])]
    };

    let mut first: Option<RunOut> = None;
    let mut chunk_io_err: Option<(String, String, bool)> = None;
    for (what, cuts) in &variants {
        let out = guard(|| run_once(c, &built, &ctx, &win, dims, cuts)).map_err(|f| {
            Fail::new(
                format!("{}/{pname}", f.sig),
                format!("{} [{what}; window {wclass} {}x{} of {h}x{w}; items {}]", f.msg, dims.0, dims.1, show_items(&c.items)),
            )
        })?;
        ensure!(
            out.offsets_ok,
            "window/model-mismatch",
            "the library window {:?} does not address the canvas cells of the model {}x{} (steps {:?})",
            out.wsize,
            dims.0,
            dims.1,
            c.window.steps
        );
        // (1) containment
        for (off, cell) in out.canvas.iter().enumerate() {
            if !inside[off] && *cell != sentinel(off) {
                return Err(Fail::new(
                    format!("containment/{pname}/{wclass}"),
                    format!(
                        "canvas cell ({},{}) outside the {}x{} window (steps {:?}) of the {h}x{w} canvas was changed to {:?} ({what}; glyphs={} wraps={}; items {})",
                        off / w,
                        off % w,
                        dims.0,
                        dims.1,
                        c.window.steps,
                        cell,
                        c.glyphs,
                        c.wraps,
                        show_items(&c.items)
                    ),
                ));
            }
        }
        // (2) chunk independence
        if let Some(base) = &first {
            if base.canvas != out.canvas {
                let off = base.canvas.iter().zip(out.canvas.iter()).position(|(a, b)| a != b).unwrap_or(0);
                return Err(Fail::new(
                    format!("chunking/cells/{pname}"),
                    format!(
                        "canvas cell ({},{}) is {:?} after a single write but {:?} with {what} (cuts {:?}); window {}x{} glyphs={} wraps={}; items {}",
                        off / w,
                        off % w,
                        base.canvas[off],
                        out.canvas[off],
                        cuts,
                        dims.0,
                        dims.1,
                        c.glyphs,
                        c.wraps,
                        show_items(&c.items)
                    ),
                ));
            }
            if base.text_cells != out.text_cells {
                return Err(Fail::new(
                    format!("chunking/text-cells/{pname}"),
                    format!(
                        "Text holds {:?} after a single write but {:?} with {what} (cuts {:?}); items {}",
                        base.text_cells,
                        out.text_cells,
                        cuts,
                        show_items(&c.items)
                    ),
                ));
            }
            if let (Some(a), Some(b)) = (base.cursor, out.cursor) {
                // a cursor below the last row never produces a cell again: only a cursor that
                // is still inside decides which cells later bytes produce
                let both_out = a.row >= dims.0 && b.row >= dims.0;
                ensure!(
                    a == b || both_out,
                    format!("chunking/cursor/{pname}"),
                    "cursor is {:?} after a single write but {:?} with {what} (cuts {:?}) in a {}x{} window: later bytes would produce different cells; glyphs={} wraps={}; items {}",
                    a,
                    b,
                    cuts,
                    dims.0,
                    dims.1,
                    c.glyphs,
                    c.wraps,
                    show_items(&c.items)
                );
            }
            if let Some(e) = &out.io_err {
                let out_of_space = out.cursor.map(|p| p.row >= dims.0).unwrap_or(false);
                chunk_io_err.get_or_insert_with(|| (format!("{what} (cuts {cuts:?})"), e.clone(), out_of_space));
            }
        } else {
            // valid UTF-8 / well-formed SGR written in one piece must never be refused
            ensure!(
                out.io_err.is_none(),
                format!("writer/io-error/{pname}"),
                "{} ({what}); window {}x{}; items {}",
                out.io_err.as_deref().unwrap_or(""),
                dims.0,
                dims.1,
                show_items(&c.items)
            );
            first = Some(out);
        }
    }
    // reported last so that it never hides a difference in cells or cursor.
    // Once the window is full (cursor below the last row) no byte can produce a cell any more;
    // the writers then stop feeding their UTF-8 decoder, so a later write that starts inside a
    // multi-byte character may be refused. The cells are identical, which is all the property
    // claims, so this is recorded as a label, not as a violation.
    let io_err_after_full = matches!(&chunk_io_err, Some((_, _, true)));
    if let Some((what, e, false)) = chunk_io_err {
        let out_of_space = false;
        return Err(Fail::new(
            format!("chunking/io-error{}/{pname}", if out_of_space { "-after-out-of-space" } else { "" }),
            format!(
                "the byte stream is accepted in a single write but with {what}: {e}; window {}x{} glyphs={} wraps={}; items {}",
                dims.0,
                dims.1,
                c.glyphs,
                c.wraps,
                show_items(&c.items)
            ),
        ));
    }
    let out = first.expect("at least one variant");
    let changed = out.canvas.iter().enumerate().filter(|(off, cell)| **cell != sentinel(*off)).count();
    let overflow = out.cursor.map(|p| p.row >= dims.0).unwrap_or(false);
    let has_newline = c.items.iter().any(|i| matches!(i, Item::Ch { c: '\n', .. }));
    let has_special = c.items.iter().any(|i| match i {
        Item::Ch { c, .. } => *c == '\t' || cw(*c) == 2,
        Item::Glyph { .. } | Item::Image { .. } => true,
        Item::Sgr(_) => false,
    });
    let cut_utf8 = stream.units.iter().any(|(s, l, k)| *k == UnitKind::Utf8 && gen_cuts.iter().any(|c| *c > *s && *c < s + l));
    let cut_esc = stream.units.iter().any(|(s, l, k)| *k == UnitKind::Esc && gen_cuts.iter().any(|c| *c > *s && *c < s + l));
    let is_bytes_path = matches!(c.path, WPath::Io | WPath::Utf8 | WPath::Tty | WPath::TextSink { .. });
    let nontrivial = outside_n > 0
        && changed > 0
        && (has_newline || overflow || changed > dims.1)
        && has_special
        && (!is_bytes_path || !stream.units.is_empty());
    Ok(Pass::new(nontrivial)
        .label(format!("writer/{pname}"))
        .label(format!("window/{wclass}"))
        .label_if(outside_n == 0, "window/whole-canvas")
        .label_if(dims.0 * dims.1 == 0, "window/empty")
        .label_if(changed > 0, "writer/cells-changed")
        .label_if(overflow, "writer/overflowed-below-last-row")
        .label_if(io_err_after_full, "writer/write-refused-after-window-full")
        .label_if(cut_utf8, "cut-inside-utf8-char")
        .label_if(cut_esc, "cut-inside-escape-sequence")
        .label_if(!c.wraps, "writer/no-wrap")
        .label_if(!c.glyphs, "writer/no-glyph-support"))
}

// ---- text case: reference layout ---------------------------------------------------------

#[derive(Clone)]
struct Unit {
    /// the cell expected on the surface (None for control characters)
    cell: Cell,
    ctrl: Option<char>,
    w: usize,
    h: usize,
    /// glyph fallback group (index of the text cell) when the unit is a fallback character
    group: Option<usize>,
    /// column offset inside the fallback group
    prefix: usize,
}

struct Model {
    pos: Vec<Option<(usize, usize)>>,
    wraps_n: usize,
    drops_n: usize,
    size: (usize, usize),
}

/// The documented layout rules: newline, carriage return, tab to the next multiple of 8 clamped
/// to the width, empty cells skipped, a cell that does not fit (`col + width > max_width`) is
/// dropped without wrapping or moved to the start of the next row with wrapping.
fn model_layout(units: &[Unit], max_w: usize, wraps: bool) -> Model {
    let (mut row, mut col) = (0usize, 0usize);
    let (mut sh, mut sw) = (0usize, 0usize);
    let mut pos = Vec::with_capacity(units.len());
    let (mut wraps_n, mut drops_n) = (0, 0);
    for u in units {
        match u.ctrl {
            Some('\n') => {
                sw = sw.max(col);
                sh = sh.max(row + 1);
                row += 1;
                col = 0;
                pos.push(None);
                continue;
            }
            Some('\r') => {
                col = 0;
                pos.push(None);
                continue;
            }
            Some(_) => {
                let next = (col / 8 + 1) * 8;
                col = next.min(max_w.max(col));
                sw = sw.max(col);
                pos.push(None);
                continue;
            }
            None => {}
        }
        if u.w == 0 || u.h == 0 {
            pos.push(None);
            continue;
        }
        if col + u.w <= max_w {
            pos.push(Some((row, col)));
            col += u.w;
        } else if !wraps {
            drops_n += 1;
            pos.push(None);
            continue;
        } else {
            wraps_n += 1;
            row += 1;
            pos.push(Some((row, 0)));
            col = u.w.min(max_w);
        }
        sw = sw.max(col);
        sh = sh.max(row + u.h);
    }
    Model { pos, wraps_n, drops_n, size: (sh, sw) }
}

fn is_printable(u: &Unit) -> bool {
    u.ctrl.is_none() && u.w > 0 && u.h > 0
}

fn unit_class(u: &Unit) -> &'static str {
    if u.group.is_some() {
        return "glyph-fallback-char";
    }
    match u.cell.kind() {
        CellKind::Char(_) if u.w >= 2 => "wide-char",
        CellKind::Char(_) => "narrow-char",
        CellKind::Glyph(_) => "glyph",
        CellKind::Image(_) => "image",
    }
}

/// Lay the view out for `max_w`, render it into a fresh sentinel surface of exactly the reported
/// size and return the written cells (kind differs from the sentinel) in row-major order.
fn layout_render_scan(view: &dyn View, ctx: &ViewContext, max_w: usize, tag: &str, desc: &str) -> Result<(Size, Vec<(Position, Cell)>), Fail> {
    let sent = Cell::new_char(Face::default(), SENT);
    let (size, surf) = guard(|| {
        let mut store = ViewLayoutStore::new();
        let layout = view
            .layout_new(ctx, BoxConstraint::loose(Size::new(10_000, max_w)), &mut store)
            .map_err(|e| Fail::new(format!("{tag}/layout-error"), format!("{desc}: {e:?}")))?;
        let size = layout.size();
        let mut surf = SurfaceOwned::new_with(size, |_| sent.clone());
        view.render(ctx, SurfaceMut::as_mut(&mut surf), layout.view())
            .map_err(|e| Fail::new(format!("{tag}/render-error"), format!("{desc}: {e:?}")))?;
        Ok((size, surf))
    })?;
    let got = (0..size.height)
        .flat_map(|r| (0..size.width).map(move |cc| Position::new(r, cc)))
        .filter_map(|p| surf.get(p).map(|cell| (p, cell.clone())))
        .filter(|(_, cell)| *cell.kind() != CellKind::Char(SENT))
        .collect();
    Ok((size, got))
}

pub fn check_text(c: &TextCase) -> Outcome {
    if !c.reuse.is_empty() {
        return check_reuse(c);
    }
    let built = build_items(&c.items, c.ppc);
    let text = guard_val(|| build_text(&built, c.wraps, face(c.tface)))?;
    check_shot(c, &built, &text)
}

/// A long-lived text: laid out + rendered, then `c.reuse` executed on the same object. Every
/// layout + render pair is held to `check_shot` for the items / wrap mode the text has at that
/// moment and the context / width of the step. A failure that a freshly built text of the same
/// content shows as well is reported as that (single-layout) failure; one that only the reused
/// object shows gets a `text-reuse/...` signature naming what changed since its last layout.
fn check_reuse(c: &TextCase) -> Outcome {
    let mut items: Vec<Item> = c.items.clone();
    let mut built = build_items(&items, c.ppc);
    let mut wraps = c.wraps;
    let mut tface = c.tface;
    let mut text = guard_val(|| build_text(&built, wraps, face(tface)))?;
    // (glyphs, ppc, w) of the previous layout of the long-lived object, and whether it was
    // mutated since
    let mut prev: Option<(bool, (u8, u8), u8)> = None;
    let mut mutated = false;
    let mut seen: Vec<(bool, (u8, u8), u8)> = Vec::new();
    let mut labels: std::collections::BTreeSet<String> = Default::default();
    let mut nontrivial = false;
    let (mut n_shows, mut n_mut) = (0usize, 0usize);
    let first = ReStep::Show { glyphs: c.glyphs, w: None, ppc: None, who: Who::Same };
    for (k, step) in std::iter::once(&first).chain(c.reuse.iter()).enumerate() {
        match step {
            ReStep::Push(more) => {
                let more_built = build_items(more, c.ppc);
                guard_val(|| more_built.iter().for_each(|item| put_direct(&mut text, item)))?;
                items.extend(more.iter().cloned());
                built.extend(more_built);
                mutated = true;
                n_mut += 1;
            }
            ReStep::Wraps(b) => {
                guard_val(|| text.set_wraps(*b))?;
                wraps = *b;
                mutated = true;
                n_mut += 1;
            }
            ReStep::Rewrite(new) => {
                let new_built = build_items(new, c.ppc);
                guard_val(|| {
                    text.clear();
                    new_built.iter().for_each(|item| put_direct(&mut text, item));
                })?;
                // `clear` resets the face the next symbols are written with
                tface = 0;
                items = new.clone();
                built = new_built;
                mutated = true;
                n_mut += 1;
            }
            ReStep::Show { glyphs, w, ppc, who } => {
                let key = (*glyphs, ppc.unwrap_or(c.ppc), w.unwrap_or(c.w));
                let shot = TextCase { glyphs: key.0, ppc: key.1, wraps, tface, w: key.2, items: items.clone(), reuse: Vec::new() };
                let since = match prev {
                    None => "first-layout",
                    Some(_) if mutated => "after-mutation",
                    Some(p) if p.0 != key.0 => "after-glyph-support-change",
                    Some(p) if p.1 != key.1 => "after-cell-size-change",
                    Some(p) if p.2 != key.2 => "after-width-change",
                    Some(_) => "same-context-and-width-again",
                };
                let result = match who {
                    Who::Same => check_shot(&shot, &built, &text),
                    Who::Clone => {
                        let copy = guard_val(|| text.clone())?;
                        check_shot(&shot, &built, &copy)
                    }
                    Who::ReplacedByClone => {
                        text = guard_val(|| text.clone())?;
                        check_shot(&shot, &built, &text)
                    }
                };
                match result {
                    Ok(p) => {
                        nontrivial |= p.nontrivial;
                        labels.extend(p.labels);
                    }
                    Err(f) => {
                        // the same content in a text nobody has laid out before
                        let fresh = guard_val(|| build_text(&built, wraps, face(tface)))?;
                        check_shot(&shot, &built, &fresh)?;
                        let what = f.sig.split('/').nth(1).unwrap_or("failure").to_string();
                        return Err(Fail::new(
                            format!("text-reuse/{what}/{since}"),
                            format!(
                                "long-lived Text, step {k} of [initial layout, {:?}] ({}; layouts so far (glyph support, pixels per cell, max width): {:?}): {} -- a freshly built text with the same cells passes the same layout + render",
                                c.reuse,
                                match who {
                                    Who::Same => "the object itself",
                                    Who::Clone => "a clone of it",
                                    Who::ReplacedByClone => "replaced by its clone",
                                },
                                seen,
                                f.msg
                            ),
                        ));
                    }
                }
                if prev.is_some() {
                    labels.insert(format!("text/reuse:layout-{since}"));
                    if *who != Who::Same {
                        labels.insert("text/reuse:clone-laid-out".into());
                    }
                    if !mutated && seen.iter().any(|s| s.2 == key.2 && (s.0, s.1) != (key.0, key.1)) {
                        labels.insert("text/reuse:same-width-other-context-no-mutation-between".into());
                    }
                }
                // a temporary clone leaves the long-lived object as it was
                if *who != Who::Clone {
                    prev = Some(key);
                    if mutated {
                        seen.clear();
                    }
                    mutated = false;
                } else if prev.is_none() {
                    prev = Some(key);
                }
                seen.push(key);
                n_shows += 1;
            }
        }
    }
    let mut pass = Pass::new(nontrivial && n_shows >= 2)
        .label("text/reuse")
        .label_if(n_shows >= 3, "text/reuse:layouts>=3")
        .label_if(n_mut > 0, "text/reuse:mutated");
    for l in labels {
        pass = pass.label(l);
    }
    Ok(pass)
}

/// Oracle (3) for one layout + render of `text`, which holds the cells `built` (made from
/// `c.items`), under the context (`c.glyphs`, `c.ppc`), wrap mode and max width of `c`
fn check_shot(c: &TextCase, built: &[BItem], text: &Text) -> Outcome {
    let term = RecTerm::new(Size::new(24, 80), Size::new(c.ppc.0.max(1) as usize, c.ppc.1.max(1) as usize), c.glyphs);
    let ctx = term.ctx();
    let max_w = (c.w as usize).max(1);
    let desc = format!("text [{}] max width {max_w} wraps={} glyph support={}", show_items(&c.items), c.wraps, c.glyphs);

    // the cells of the text, aligned with the items that produce a cell
    let cell_items: Vec<&BItem> = built.iter().filter(|b| !matches!(b, BItem::Sgr(_))).collect();
    let cells = text.cells();
    let same_kinds = cells.len() == cell_items.len()
        && cells.iter().zip(cell_items.iter()).all(|(cell, item)| match (cell.kind(), item) {
            (CellKind::Char(a), BItem::Ch(b, _)) => a == b,
            (CellKind::Glyph(a), BItem::Glyph { glyph, .. }) => a == glyph,
            (CellKind::Image(a), BItem::Image { image, .. }) => a == image,
            _ => false,
        });
    ensure!(same_kinds, "text/cells-differ-from-input", "{desc}: Text::cells() = {:?}", cells);

    // units: per the property a glyph on a terminal without glyph support stands for its
    // fallback characters; `unit_units` is the same text with such a glyph as ONE cell of the
    // total fallback width (only used to classify a failure)
    let mut units: Vec<Unit> = Vec::new();
    let mut unit_units: Vec<Unit> = Vec::new();
    let mut glyph_ids = Vec::new();
    let mut image_ids = Vec::new();
    for (n, (cell, item)) in cells.iter().zip(cell_items.iter()).enumerate() {
        match item {
            BItem::Ch(ch, _) => {
                let ctrl = matches!(ch, '\n' | '\r' | '\t').then_some(*ch);
                let u = Unit { cell: cell.clone(), ctrl, w: cw(*ch), h: 1, group: None, prefix: 0 };
                unit_units.push(u.clone());
                units.push(u);
            }
            BItem::Glyph { glyph, h, w, .. } => {
                glyph_ids.push((glyph.clone(), n));
                if c.glyphs {
                    let u = Unit { cell: cell.clone(), ctrl: None, w: *w, h: *h, group: None, prefix: 0 };
                    unit_units.push(u.clone());
                    units.push(u);
                } else {
                    let mut prefix = 0;
                    for ch in glyph.fallback_str().chars() {
                        units.push(Unit {
                            cell: Cell::new_char(cell.face(), ch),
                            ctrl: None,
                            w: cw(ch),
                            h: 1,
                            group: Some(n),
                            prefix,
                        });
                        prefix += cw(ch);
                    }
                    unit_units.push(Unit { cell: cell.clone(), ctrl: None, w: prefix, h: 1, group: Some(n), prefix: 0 });
                }
            }
            BItem::Image { image, .. } => {
                image_ids.push((image.clone(), n));
                // cells = ceil(pixels / pixels per cell of the context the text is shown under
                // (which for a long-lived text need not be the one its images were made for)
                let px = Surface::size(image);
                let (ph, pw) = (c.ppc.0.max(1) as usize, c.ppc.1.max(1) as usize);
                let (h, w) = if px.height == 0 || px.width == 0 { (0, 0) } else { (ceil_div(px.height, ph), ceil_div(px.width, pw)) };
                let u = Unit { cell: cell.clone(), ctrl: None, w, h, group: None, prefix: 0 };
                unit_units.push(u.clone());
                units.push(u);
            }
            BItem::Sgr(_) => unreachable!(),
        }
    }
    let has_cr = units.iter().any(|u| u.ctrl == Some('\r'));
    let model = model_layout(&units, max_w, c.wraps);

    // does measuring a fallback string as one cell place any fallback character differently?
    let fallback_disc = if c.glyphs {
        false
    } else {
        let um = model_layout(&unit_units, max_w, c.wraps);
        let mut group_pos: BTreeMap<usize, Option<(usize, usize)>> = BTreeMap::new();
        let mut plain_pos = Vec::new();
        for (u, p) in unit_units.iter().zip(um.pos.iter()) {
            match u.group {
                Some(g) => {
                    group_pos.insert(g, *p);
                }
                None => plain_pos.push(*p),
            }
        }
        let mut plain = plain_pos.into_iter();
        let mut differs = um.size != model.size;
        for (u, p) in units.iter().zip(model.pos.iter()) {
            let want = match u.group {
                Some(g) if u.w > 0 => group_pos[&g].map(|(r, cc)| (r, cc + u.prefix)),
                Some(_) => None,
                None => plain.next().unwrap_or(None),
            };
            if want != *p {
                differs = true;
            }
        }
        differs
    };

    // expected sequence
    let expected: Vec<&Unit> = if c.wraps && !has_cr {
        // model free: every printable cell, in text order
        units.iter().filter(|u| is_printable(u)).collect()
    } else {
        // cells the model places, in position order (a later cell on the same position replaces
        // the earlier one: only possible after a carriage return)
        let mut grid: BTreeMap<(usize, usize), &Unit> = BTreeMap::new();
        for (u, p) in units.iter().zip(model.pos.iter()) {
            if let Some(p) = p {
                grid.insert(*p, u);
            }
        }
        grid.into_values().collect()
    };

    // layout and render
    let (size, scanned) = layout_render_scan(text, &ctx, max_w, "text", &desc)?;
    let got: Vec<(Position, &Cell)> = scanned.iter().map(|(p, cell)| (*p, cell)).collect();

    let show = |cell: &Cell| show_cell(cell, &glyph_ids, &image_ids);
    let kinds_equal = got.len() == expected.len() && got.iter().zip(expected.iter()).all(|((_, g), e)| g.kind() == e.cell.kind());
    if !kinds_equal {
        // classify: lost / extra / order
        let mut remaining: Vec<&Cell> = got.iter().map(|(_, g)| *g).collect();
        let mut lost: Vec<&Unit> = Vec::new();
        for e in &expected {
            match remaining.iter().position(|g| g.kind() == e.cell.kind()) {
                Some(i) => {
                    remaining.remove(i);
                }
                None => lost.push(e),
            }
        }
        let (what, class) = if let Some(u) = lost.first() {
            ("lost-cell", unit_class(u))
        } else if !remaining.is_empty() {
            ("extra-cell", "any")
        } else {
            ("order", "any")
        };
        let mode = if c.wraps { "wrap" } else { "nowrap" };
        let sig = if !c.glyphs && fallback_disc {
            // known root cause: the layout measures the fallback string as one cell, the writer
            // lays it out character by character
            // (one signature per wrap mode whatever the symptom: lost / extra / order)
            format!("text/lost-cell/{}", if c.wraps { "glyph-fallback-wraps-differently" } else { "glyph-fallback-dropped-as-one-cell" })
        } else {
            format!("text/{what}/{mode}/{class}{}", if has_cr { "/with-cr" } else { "" })
        };
        return Err(Fail::new(
            sig,
            format!(
                "{desc}: layout reports {}x{}; the surface of that size shows [{}] (row-major, with positions {:?}), expected [{}]{}; lost: [{}]",
                size.height,
                size.width,
                got.iter().map(|(_, g)| show(g)).collect::<Vec<_>>().join(" "),
                got.iter().map(|(p, _)| (p.row, p.col)).collect::<Vec<_>>(),
                expected.iter().map(|e| show(&e.cell)).collect::<Vec<_>>().join(" "),
                if c.wraps { "" } else { " (cells beyond the right edge removed)" },
                lost.iter().map(|e| show(&e.cell)).collect::<Vec<_>>().join(" "),
            ),
        ));
    }
    // faces: the target is a fresh surface with the default face, so the cell of the text must
    // appear with its own face (after a carriage return the face fill of skipped cells may
    // legitimately re-colour written cells: not compared)
    if !has_cr {
        for ((p, g), e) in got.iter().zip(expected.iter()) {
            ensure!(
                g.face() == e.cell.face(),
                format!("text/face/{}", unit_class(e)),
                "{desc}: cell {} at ({},{}) has face {:?}, the cell of the text has {:?}",
                show(g),
                p.row,
                p.col,
                g.face(),
                e.cell.face()
            );
        }
    }

    // the same characters as a `str` view (always wraps, default face)
    let as_str = c.wraps && cell_items.iter().all(|b| matches!(b, BItem::Ch(..)));
    if as_str {
        let string: String = cell_items.iter().filter_map(|b| if let BItem::Ch(ch, _) = b { Some(*ch) } else { None }).collect();
        let (ssize, sgot) = layout_render_scan(&string, &ctx, max_w, "str", &desc)?;
        let want: Vec<Cell> = expected.iter().map(|e| Cell::new_char(Face::default(), match e.cell.kind() {
            CellKind::Char(ch) => *ch,
            _ => SENT,
        })).collect();
        let same = sgot.len() == want.len()
            && sgot.iter().zip(want.iter()).all(|((_, g), e)| g.kind() == e.kind() && (has_cr || g.face() == e.face()));
        ensure!(
            same,
            format!("str/lost-cell/{}", if has_cr { "with-cr" } else { "wrap" }),
            "{desc} as a str view: layout reports {}x{}; the surface of that size shows [{}] at {:?}, expected [{}]",
            ssize.height,
            ssize.width,
            sgot.iter().map(|(_, g)| show(g)).collect::<Vec<_>>().join(" "),
            sgot.iter().map(|(p, _)| (p.row, p.col)).collect::<Vec<_>>(),
            want.iter().map(|e| show(e)).collect::<Vec<_>>().join(" ")
        );
    }

    let has_newline = units.iter().any(|u| u.ctrl == Some('\n'));
    let has_special = units.iter().any(|u| u.ctrl == Some('\t') || (is_printable(u) && (u.w >= 2 || u.h >= 2 || u.group.is_some())))
        || !glyph_ids.is_empty()
        || !image_ids.is_empty();
    let nontrivial = (model.wraps_n > 0 || model.drops_n > 0 || has_newline) && has_special && !expected.is_empty();
    Ok(Pass::new(nontrivial)
        .label(if c.wraps { "text/wrap" } else { "text/nowrap" })
        .label(if c.glyphs { "text/glyph-support" } else { "text/no-glyph-support" })
        .label_if(model.wraps_n > 0, "text/wrapped>=1")
        .label_if(model.drops_n > 0, "text/dropped-beyond-edge>=1")
        .label_if(has_newline, "text/newline")
        .label_if(has_cr, "text/with-cr")
        .label_if(as_str, "text/also-as-str-view")
        .label_if(units.iter().any(|u| u.ctrl == Some('\t')), "text/tab")
        .label_if(units.iter().any(|u| u.ctrl.is_none() && u.group.is_none() && matches!(u.cell.kind(), CellKind::Char(_)) && u.w == 2), "text/wide-char")
        .label_if(units.iter().any(|u| u.ctrl.is_none() && u.w == 0), "text/zero-width")
        .label_if(!glyph_ids.is_empty(), "text/glyph")
        .label_if(!image_ids.is_empty(), "text/image")
        .label_if(units.iter().any(|u| u.group.is_some()), "text/fallback-chars")
        .label_if(fallback_disc, "text/fallback-unit-vs-chars-differ-but-no-cell-lost")
        .label_if(expected.is_empty(), "text/nothing-printable")
        .label_if(size.height >= 3, "text/rows>=3"))
}

// ---- strategies -------------------------------------------------------------------------

fn ch_strategy(cr: bool) -> BoxedStrategy<char> {
    let mut v: Vec<(u32, BoxedStrategy<char>)> = vec![
        (10, proptest::sample::select(NARROW.to_vec()).boxed()),
        (4, proptest::sample::select(WIDE.to_vec()).boxed()),
        (2, proptest::sample::select(ZERO.to_vec()).boxed()),
        (3, Just('\n').boxed()),
        (2, Just('\t').boxed()),
    ];
    if cr {
        v.push((1, Just('\r').boxed()));
    }
    Union::new_weighted(v).boxed()
}

fn face_opt() -> BoxedStrategy<Option<u8>> {
    prop_oneof![2 => Just(None), 3 => (0u8..6).prop_map(Some)].boxed()
}

fn item_strategy(cr: bool, sgr: u32) -> BoxedStrategy<Item> {
    let mut v: Vec<(u32, BoxedStrategy<Item>)> = vec![
        (21, (ch_strategy(cr), face_opt()).prop_map(|(c, face)| Item::Ch { c, face }).boxed()),
        (
            4,
            (1u8..=2, 1u8..=3, proptest::sample::select(FALLBACKS.to_vec()), face_opt())
                .prop_map(|(h, w, fb, face)| Item::Glyph { h, w, fb: fb.to_string(), face })
                .boxed(),
        ),
        (
            2,
            (prop_oneof![12 => 1u8..=2, 1 => Just(0u8)], 1u8..=3, any::<bool>())
                .prop_map(|(h, w, ragged)| Item::Image { h, w, ragged })
                .boxed(),
        ),
    ];
    if sgr > 0 {
        v.push((sgr, (0u8..SGRS.len() as u8).prop_map(Item::Sgr).boxed()));
    }
    Union::new_weighted(v).boxed()
}

fn ppc_strategy() -> BoxedStrategy<(u8, u8)> {
    prop_oneof![2 => Just((2u8, 1u8)), 1 => Just((1u8, 1u8)), 1 => (1u8..=4, 1u8..=3)].boxed()
}

fn window_strategy() -> BoxedStrategy<Window> {
    let step = prop_oneof![
        24 => (any::<u16>(), any::<u16>(), any::<u16>(), any::<u16>(), any::<bool>())
            .prop_map(|(r0, r1, c0, c1, owned)| WStep::View { r0, r1, c0, c1, owned }),
        8 => (1u8..=3, 1u8..=3).prop_map(|(rs, cs)| WStep::Stride { rs, cs }),
        8 => Just(WStep::Transpose),
        1 => Just(WStep::Empty),
    ];
    let steps = prop_oneof![
        1 => Just(Vec::new()).boxed(),
        6 => proptest::collection::vec(step, 1..=3).boxed(),
    ];
    (1u8..=12, 1u8..=16, steps).prop_map(|(h, w, steps)| Window { h, w, steps }).boxed()
}

fn writer_strategy() -> BoxedStrategy<Case> {
    let path = prop_oneof![
        3 => Just(WPath::Cells),
        3 => Just(WPath::Io),
        2 => Just(WPath::Utf8),
        4 => Just(WPath::Tty),
        1 => Just(WPath::TextSink { tty: false }),
        1 => Just(WPath::TextSink { tty: true }),
        1 => Just(WPath::PutText),
        2 => Just(WPath::DrawView),
        1 => (0u8..=14, 0u8..=20).prop_map(|(h, w)| WPath::LayoutRender { h, w }),
    ];
    (
        window_strategy(),
        any::<bool>(),
        ppc_strategy(),
        prop_oneof![3 => Just(true), 1 => Just(false)],
        0u8..6,
        path,
        proptest::collection::vec(item_strategy(true, 3), 0..60),
        proptest::collection::vec(any::<u16>(), 0..6),
        proptest::collection::vec(any::<u16>(), 0..3),
    )
        .prop_map(|(window, glyphs, ppc, wraps, wface, path, items, cuts, mids)| {
            Case::Writer(WriterCase { window, glyphs, ppc, wraps, wface, path, items, cuts, mids })
        })
        .boxed()
}

fn text_strategy() -> BoxedStrategy<Case> {
    let chars_only = (ch_strategy(false), face_opt()).prop_map(|(c, face)| Item::Ch { c, face });
    let items = prop_oneof![
        8 => proptest::collection::vec(item_strategy(false, 1), 0..40),
        1 => proptest::collection::vec(item_strategy(true, 1), 0..40),
        1 => proptest::collection::vec(chars_only, 0..40),
    ];
    // long-lived texts (1 text case in 6): 1..4 further steps on the same object, mostly layouts
    let who = prop_oneof![4 => Just(Who::Same), 2 => Just(Who::Clone), 1 => Just(Who::ReplacedByClone)];
    let show = (
        any::<bool>(),
        prop_oneof![3 => Just(None), 2 => (1u8..20).prop_map(Some)],
        prop_oneof![5 => Just(None), 1 => ppc_strategy().prop_map(Some)],
        who,
    )
        .prop_map(|(glyphs, w, ppc, who)| ReStep::Show { glyphs, w, ppc, who });
    let step = prop_oneof![
        12 => show,
        2 => proptest::collection::vec(item_strategy(false, 1), 1..6).prop_map(ReStep::Push),
        1 => any::<bool>().prop_map(ReStep::Wraps),
        1 => proptest::collection::vec(item_strategy(false, 1), 0..20).prop_map(ReStep::Rewrite),
    ];
    let reuse = prop_oneof![
        5 => Just(Vec::new()).boxed(),
        1 => proptest::collection::vec(step, 1..5).boxed(),
    ];
    (any::<bool>(), ppc_strategy(), any::<bool>(), 0u8..6, 1u8..20, items, reuse)
        .prop_map(|(glyphs, ppc, wraps, tface, w, items, reuse)| Case::Text(TextCase { glyphs, ppc, wraps, tface, w, items, reuse }))
        .boxed()
}

impl Property for C09 {
    type Case = Case;

    fn fuzz(&self) -> Option<FuzzSpec> {
        // entropy-driven target: libFuzzer's bytes replace the generator's random numbers
        Some(FuzzSpec { target: "gen", jobs: 8, runs: 350_000, max_len: 4096, seeds: 64 })
    }

    fn id(&self) -> &'static str {
        "C09"
    }

    fn strategy(&self, _tier: Tier) -> BoxedStrategy<Case> {
        prop_oneof![1 => writer_strategy(), 1 => text_strategy()].boxed()
    }

    fn check(&self, case: &Case) -> Outcome {
        match case {
            Case::Writer(c) => check_writer(c),
            Case::Text(c) => check_text(c),
        }
    }

    fn cases(&self, tier: Tier) -> u32 {
        tier.pick(60_000, 1_500_000)
    }

    fn rule(&self) -> String {
        "items: narrow / wide (世 🤩 한 Ａ) / zero-width (U+0301, NUL, BEL, U+200B) characters, \\n, \\t, \\r, glyphs 1x1..2x3 with fallback strings (empty, 1..12 chars, wide, combining), images 0..2 x 1..3 cells (pixel sizes exact or one pixel short), face changes; faces from a pool of 6 (incl. translucent colours); glyph support on/off; pixels per cell 1x1..4x3; wrap on/off. \
         (a) writer cases (50%): canvas 1..12 x 1..16 of pairwise different sentinel cells; window = 0..3 steps of view_mut / view_owned with generated non-empty ranges, strided hand-built Shape (every 1..3rd row/column), transpose, rarely an empty selection; the window is modelled as a matrix of canvas offsets. 0..59 items written through: TerminalWriter put_cell/put_char/put_glyph/put_image; its io::Write; by_ref().utf8_writer(); by_ref().tty_writer() with SGR sequences from a pool of 9; a Text filled through utf8_writer/tty_writer then draw_view; put_text; draw_view of a Text; Text layout_new(loose(0..14 x 0..20)) + render. Byte paths run three times (single write_all per run of bytes, generated cuts incl. cuts forced inside multi-byte units, byte at a time); glyphs/images are put directly between the byte runs. Oracles: every canvas cell outside the window equals its sentinel; whole canvas (and Text::cells) identical across partitions; cursor identical unless both cursors are below the last row. \
         (b) text cases (50%): Text of 0..39 items (10% may contain \\r, 10% characters only; a wrapping text of characters only is also checked as a `str` view), layout_new(loose(10000 x w)), w in 1..19, render into a fresh sentinel surface of exactly the reported size; row-major scan of non-sentinel cells must equal (kind, then face) the printable cells of the text in order (glyph without glyph support: its fallback characters with the glyph cell's face); with wrapping off, or with \\r, the expected sequence is the one an independent layout model places. \
         One text case in 6 is a long-lived text: after that first layout + render the SAME Text object goes through 1..4 further steps: mostly another layout + render (glyph support on/off at random, i.e. both settings in both orders; max width the same again (60%) or another one in 1..19; pixels per cell the same or (1 in 6) others; on the object itself, on a temporary clone, or after replacing the object by its clone), otherwise a mutation through CellWrite (1..5 more items, set_wraps, or clear() + 0..19 new items). Every layout + render pair is held to the oracle above for the cells / wrap mode the text has at that moment and the context / width of that step; a failure that a freshly built text with the same cells does not show is reported as text-reuse/<lost-cell|extra-cell|order|face|...>/<what changed since the object's previous layout: after-glyph-support-change, after-cell-size-change, after-width-change, same-context-and-width-again, after-mutation>, one that the fresh text shows too under its usual text/... signature. \
         sweep: all texts of length <= 4 over {a, 世, \\n, \\t, glyph 1x2 \"ab\", glyph 1x1 \"abc\", image 2x1} x w in 1..=4 x wrap x glyph support. \
         non-trivial = (a) window is a proper part of the canvas, cells were changed, a newline/overflow/more cells than one row, at least one wide char/tab/glyph/image and, on byte paths, a multi-byte unit (always cut by the byte-at-a-time run); (b) at least one wrap, drop or newline and at least one wide char/tab/glyph/image, something printable; long-lived texts: at least two layouts, one of them non-trivial by the rule of (b)".into()
    }

    fn assumptions(&self) -> Vec<String> {
        vec![
            "display widths of the generated characters are hard coded (ASCII/é/Ж = 1, 世 🤩 한 Ａ = 2, U+0301 NUL BEL U+200B = 0)".into(),
            "an image covers ceil(pixels / pixels-per-cell) cells; an image or glyph occupies one cell of the surface (its top-left corner)".into(),
            "layout model (used only with wrapping off, with \\r, and for classification): \\n -> next row col 0; \\r -> col 0; \\t -> next multiple of 8 clamped to the max width; zero-size cells are skipped; a cell fits iff col + width <= max width; otherwise it is dropped (wrap off) or placed at column 0 of the next row unconditionally (wrap on)".into(),
            "a printable cell = display width > 0, not \\n \\r \\t; 'beyond the right edge' = does not fit by the rule above at the column the model reaches".into(),
            "carriage return is outside the property's quantifier: for texts containing one, a cell whose position is taken again by a later cell is expected to be replaced (last write wins), faces are not compared, and failures carry the suffix /with-cr".into(),
            "faces in (b): the target surface has the default face and the writer's face is the default, so by Face::overlay the rendered cell must carry exactly the face of Text::cells()[i] (for fallback characters the glyph cell's face); Text::cells() itself is taken as the definition of the text's cells (only its kinds are compared with the input)".into(),
            "cursor comparison in (a): cursors may differ when both are below the last row of the window (io::Write stops consuming a buffer once a put reports out of space; no later byte can produce a cell there)".into(),
            "the faces given to cells skipped by tab/newline are not checked (the property is silent), nor the content of a text rendered into a surface smaller than its layout, nor positions of cells (only the reading order)".into(),
            "fallback strings contain no control characters; byte streams are valid UTF-8 plus well-formed SGR sequences".into(),
            "long-lived texts: the statement's 'a text ... its own layout' is not restricted to a text that is laid out for the first time, so a Text (or a clone: Clone is taken to yield an equivalent text) that was laid out before, under whatever context and width, is held to the same oracle at every later layout + render; the text's content at that moment is what the CellWrite calls so far produce when made on a new Text (clear() resets the face for the following symbols to the default); images keep their pixels, under other pixels per cell they cover ceil(pixels / pixels per cell) cells".into(),
        ]
    }

    fn sweep(&self, _tier: Tier, _seed: u64, sw: &mut Sweep) -> Result<(), (Case, Fail)> {
        let known: Vec<String> = load_known_findings("C09").into_iter().map(|k| k.sig).collect();
        let alphabet: Vec<Item> = vec![
            Item::Ch { c: 'a', face: None },
            Item::Ch { c: '世', face: Some(1) },
            Item::Ch { c: '\n', face: None },
            Item::Ch { c: '\t', face: None },
            Item::Glyph { h: 1, w: 2, fb: "ab".into(), face: Some(2) },
            Item::Glyph { h: 1, w: 1, fb: "abc".into(), face: None },
            Item::Image { h: 2, w: 1, ragged: false },
        ];
        let n = alphabet.len();
        for len in 0..=4usize {
            let total = n.pow(len as u32);
            for code in 0..total {
                let mut items = Vec::with_capacity(len);
                let mut x = code;
                for _ in 0..len {
                    items.push(alphabet[x % n].clone());
                    x /= n;
                }
                for w in 1u8..=4 {
                    for wraps in [true, false] {
                        for glyphs in [true, false] {
                            let case = TextCase { glyphs, ppc: (2, 1), wraps, tface: 0, w, items: items.clone(), reuse: Vec::new() };
                            sw.evaluations += 1;
                            match guard(|| check_text(&case)) {
                                Ok(p) => {
                                    if p.nontrivial {
                                        sw.nontrivial += 1;
                                    }
                                }
                                Err(f) if known.contains(&f.sig) => {
                                    *sw.labels.entry(format!("sweep-excluded-known:{}", f.sig)).or_default() += 1;
                                }
                                Err(f) => return Err((Case::Text(case), f)),
                            }
                        }
                    }
                }
            }
        }
        *sw.labels.entry("sweep-small-texts".into()).or_default() += sw.evaluations;
        sw.samples.push(serde_json::json!({"sweep": "texts of length <= 4 over 7 symbols, w 1..=4, wrap on/off, glyph support on/off"}));
        Ok(())
    }
}
