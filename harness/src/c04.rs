//! C04 — every well-formed terminal report or key sequence decodes to what it encodes.
//!
//! Generator: structured items (keys from the pinned naming table, mouse, reports, SGR,
//! OSC colours, termcap, kitty keyboard/graphics, paste, text) -> bytes through the
//! independent protocol printer (`ttyout`).  Oracle: exact equality of the decoded event list
//! with the events the items denote, (1) for the bytes in a single buffer and (2) for the same
//! bytes delivered under a generated READ SCHEDULE: cut into reads (cuts biased to fall right
//! after ESC, after an introducer `ESC [`/`ESC O`/`ESC P`/`ESC ]`/`ESC _`, after `ESC ESC`),
//! with reads that return nothing and reads that fail with WouldBlock / Interrupted and are
//! retried on the same decoder (io::BufRead contract) in between.  The events a byte stream
//! denotes do not depend on how the bytes arrive.

use crate::engine::*;
use crate::refsgr::{RgbForm, SgrParam};
use crate::ttyout::{self, Item, LegacyKey};
use proptest::prelude::*;
use serde::{Deserialize, Serialize};
use std::sync::LazyLock;
use surf_n_term::TerminalEvent;
use surf_n_term::decoder::{Decoder, TTYEventDecoder};

pub struct C04;

pub static TABLE: LazyLock<Vec<LegacyKey>> = LazyLock::new(ttyout::legacy_table);

#[derive(Clone, Debug, Serialize, Deserialize)]
pub struct Case {
    pub items: Vec<Item>,
    /// how the bytes are delivered to a second, fresh decoder (None: single buffer only)
    #[serde(default)]
    pub reads: Option<Schedule>,
}

/// where a cut position is moved to (the first such boundary at or after it, wrapping around)
#[derive(Clone, Copy, Debug, PartialEq, Eq, Serialize, Deserialize)]
pub enum Snap {
    Free,
    /// right after an ESC byte
    AfterEsc,
    /// right after the byte that follows an ESC (`ESC [`, `ESC O`, `ESC ]`, `ESC ESC` ...)
    AfterIntroducer,
    /// right after `ESC ESC` (falls back to AfterEsc)
    AfterEscEsc,
}

/// what the reader answers at a cut before it delivers the next bytes
#[derive(Clone, Copy, Debug, PartialEq, Eq, Serialize, Deserialize)]
pub enum Gap {
    /// `fill_buf` returns an empty slice (nothing has arrived)
    Empty,
    /// `fill_buf` fails with ErrorKind::WouldBlock, nothing consumed, the caller retries
    WouldBlock,
    /// `fill_buf` fails with ErrorKind::Interrupted, nothing consumed, the caller retries
    Interrupted,
}

#[derive(Clone, Debug, Serialize, Deserialize)]
pub struct Cut {
    /// position as a fraction of the input length
    pub at: u16,
    pub snap: Snap,
    pub gap: Vec<Gap>,
}

#[derive(Clone, Debug, Default, Serialize, Deserialize)]
pub struct Schedule {
    /// every delivered chunk is followed by a read that returns nothing: the way
    /// `Terminal::poll` feeds the decoder (one Cursor per read(2), drained until None)
    pub drain: bool,
    pub cuts: Vec<Cut>,
}

const ESC: u8 = 0x1b;

/// fraction that resolves to exactly position `c` of `len` bytes
fn frac_for(c: usize, len: usize) -> u16 {
    ((c * 65536).div_ceil(len + 1)).min(65535) as u16
}

impl Schedule {
    /// cut positions (ascending, merged) with what happens at each of them
    fn resolve(&self, bytes: &[u8]) -> Vec<(usize, Vec<Gap>)> {
        let len = bytes.len();
        let after_esc: Vec<usize> = (0..len).filter(|&i| bytes[i] == ESC).map(|i| i + 1).collect();
        let after_intro: Vec<usize> = after_esc.iter().map(|p| p + 1).filter(|p| *p <= len).collect();
        let after_pair: Vec<usize> = after_esc.iter().copied().filter(|&p| p >= 2 && bytes[p - 2] == ESC).collect();
        let pick = |list: &[usize], pos: usize| list.iter().copied().find(|p| *p >= pos).or(list.first().copied());
        let mut out: Vec<(usize, Vec<Gap>)> = Vec::new();
        for cut in &self.cuts {
            let pos = (cut.at as usize * (len + 1)) >> 16;
            let pos = match cut.snap {
                Snap::Free => None,
                Snap::AfterEsc => pick(&after_esc, pos),
                Snap::AfterIntroducer => pick(&after_intro, pos),
                Snap::AfterEscEsc => pick(&after_pair, pos).or(pick(&after_esc, pos)),
            }
            .unwrap_or(pos);
            out.push((pos, cut.gap.clone()));
        }
        out.sort_by_key(|(p, _)| *p);
        let mut merged: Vec<(usize, Vec<Gap>)> = Vec::new();
        for (p, g) in out {
            match merged.last_mut() {
                Some((q, h)) if *q == p => h.extend(g),
                _ => merged.push((p, g)),
            }
        }
        merged
    }
}

#[derive(Clone, Copy, Debug)]
enum Step {
    Data(usize, usize),
    Empty,
    Fault(std::io::ErrorKind),
}

/// the reads of a resolved schedule; `empties` / `faults` = keep those answers (the reduced
/// schedules tell which ingredient a failure needs)
fn steps_of(cuts: &[(usize, Vec<Gap>)], len: usize, drain: bool, empties: bool, faults: bool) -> Vec<Step> {
    let mut steps = Vec::new();
    let mut prev = 0usize;
    let mut data = |steps: &mut Vec<Step>, prev: &mut usize, to: usize| {
        if to > *prev {
            steps.push(Step::Data(*prev, to));
            if drain && empties {
                steps.push(Step::Empty);
            }
            *prev = to;
        }
    };
    for (pos, gaps) in cuts {
        data(&mut steps, &mut prev, *pos);
        for g in gaps {
            match g {
                Gap::Empty if empties => steps.push(Step::Empty),
                Gap::WouldBlock if faults => steps.push(Step::Fault(std::io::ErrorKind::WouldBlock)),
                Gap::Interrupted if faults => steps.push(Step::Fault(std::io::ErrorKind::Interrupted)),
                _ => {}
            }
        }
    }
    data(&mut steps, &mut prev, len);
    steps
}

fn render_steps(bytes: &[u8], steps: &[Step]) -> String {
    let parts: Vec<String> = steps
        .iter()
        .map(|s| match s {
            Step::Data(a, b) if b - a > 60 => format!("<{} bytes ending in \"{}\">", b - a, String::from_utf8_lossy(&bytes[b - 12..*b]).escape_debug()),
            Step::Data(a, b) => format!("\"{}\"", String::from_utf8_lossy(&bytes[*a..*b]).escape_debug()),
            Step::Empty => "<read returns nothing>".to_string(),
            Step::Fault(k) => format!("<read fails: {k:?}, retried>"),
        })
        .collect();
    format!("[{}]", parts.join(", "))
}

/// A reader that answers `fill_buf` according to the schedule: unconsumed bytes of the current
/// chunk first, otherwise the next step; after the last step it is at end of input.
struct Scripted<'a> {
    bytes: &'a [u8],
    steps: &'a [Step],
    next: usize,
    cur: (usize, usize),
    faults: usize,
}

impl Scripted<'_> {
    fn exhausted(&self) -> bool {
        self.next == self.steps.len() && self.cur.0 == self.cur.1
    }
}

impl std::io::Read for Scripted<'_> {
    fn read(&mut self, out: &mut [u8]) -> std::io::Result<usize> {
        use std::io::BufRead;
        let data = self.fill_buf()?;
        let n = data.len().min(out.len());
        out[..n].copy_from_slice(&data[..n]);
        self.consume(n);
        Ok(n)
    }
}

impl std::io::BufRead for Scripted<'_> {
    fn fill_buf(&mut self) -> std::io::Result<&[u8]> {
        if self.cur.0 == self.cur.1 {
            match self.steps.get(self.next).copied() {
                None => {}
                Some(step) => {
                    self.next += 1;
                    match step {
                        Step::Data(a, b) => self.cur = (a, b),
                        Step::Empty => {}
                        Step::Fault(kind) => {
                            self.faults += 1;
                            return Err(std::io::Error::new(kind, "scheduled read failure"));
                        }
                    }
                }
            }
        }
        Ok(&self.bytes[self.cur.0..self.cur.1])
    }

    fn consume(&mut self, amt: usize) {
        self.cur.0 = (self.cur.0 + amt).min(self.cur.1);
    }
}

/// One decoder, one reader; `decode` is called until it returns None with every step of the
/// schedule taken and every byte consumed (what `decode_into` does with the last chunk; no
/// further read is added at the end).  An error returned right after the reader failed is the
/// scheduled failure coming back: the same call is simply made again.
fn decode_scheduled(bytes: &[u8], steps: &[Step]) -> Result<Vec<TerminalEvent>, Fail> {
    let mut dec = TTYEventDecoder::new();
    let mut rd = Scripted { bytes, steps, next: 0, cur: (0, 0), faults: 0 };
    let mut out = Vec::new();
    let mut seen_faults = 0usize;
    // every call either yields an event (at most one per byte), or takes a step, or is the last
    for _ in 0..2 * bytes.len() + steps.len() + 64 {
        let r = dec.decode(&mut rd);
        let injected = rd.faults > seen_faults;
        seen_faults = rd.faults;
        match r {
            Ok(Some(ev)) => out.push(ev),
            Ok(None) if rd.exhausted() => break,
            Ok(None) => {}
            Err(_) if injected => {}
            Err(e) => {
                return Err(Fail::new(
                    "reads/io-error",
                    format!(
                        "input delivered as {}: decoder returned error {e:?} although the reader had not failed",
                        render_steps(bytes, steps)
                    ),
                ));
            }
        }
    }
    Ok(out)
}

pub fn decode_all(bytes: &[u8]) -> Result<Vec<TerminalEvent>, Fail> {
    let mut dec = TTYEventDecoder::new();
    let mut out = Vec::new();
    let mut cur = std::io::Cursor::new(bytes);
    dec.decode_into(&mut cur, &mut out)
        .map_err(|e| Fail::new("decode/io-error", format!("decoder returned error {e:?}")))?;
    Ok(out)
}

fn classify(item: &Item) -> String {
    match item {
        Item::Sgr(params) | Item::Decrpss(params) => {
            let semi_followed = params.iter().enumerate().any(|(i, p)| {
                matches!(p, SgrParam::Rgb { form: RgbForm::Semi, .. }) && i + 1 < params.len()
            });
            let has = |f: fn(&SgrParam) -> bool| params.iter().any(f);
            if semi_followed {
                format!("{}/semicolon-rgb-followed-by-parameter", item.family())
            } else if has(|p| matches!(p, SgrParam::BoldOff)) {
                format!("{}/22-normal-intensity", item.family())
            } else if has(|p| matches!(p, SgrParam::DoubleUnderline)) {
                format!("{}/21-double-underline", item.family())
            } else {
                format!("{}/other", item.family())
            }
        }
        Item::DecRpm { mode, .. } => format!("decrpm/mode-{mode}"),
        other => other.family().to_string(),
    }
}

struct Encoded {
    bytes: Vec<u8>,
    /// end offset of every item's encoding
    ends: Vec<usize>,
    expected: Vec<(usize, TerminalEvent)>,
}

fn encode_items(items: &[Item]) -> Encoded {
    let table = &*TABLE;
    let mut enc = Encoded { bytes: Vec::new(), ends: Vec::new(), expected: Vec::new() };
    for (idx, item) in items.iter().enumerate() {
        item.encode(table, &mut enc.bytes);
        enc.ends.push(enc.bytes.len());
        let mut ev = Vec::new();
        item.expected(table, &mut ev);
        enc.expected.extend(ev.into_iter().map(|e| (idx, e)));
    }
    enc
}

/// exact equality of `got` with the events the items denote; `oracle` is the signature prefix,
/// `how` describes the delivery of the bytes
fn compare(items: &[Item], enc: &Encoded, got: &[TerminalEvent], oracle: &str, how: &str) -> Result<(), Fail> {
    let render = || String::from_utf8_lossy(&enc.bytes).escape_debug().to_string();
    for (pos, (idx, want)) in enc.expected.iter().enumerate() {
        let item = &items[*idx];
        let Some(g) = got.get(pos) else {
            return Err(Fail::new(
                format!("{oracle}/{}/missing", classify(item)),
                format!(
                    "input \"{}\"{how}: expected event #{pos} {:?} (from {:?}) but only {} events were decoded: {:?}",
                    render(), want, item, got.len(), got
                ),
            ));
        };
        let ok = match (item, g) {
            (Item::Osc { fmt, name: _, .. }, TerminalEvent::Color { name: gname, color }) => {
                matches!(want, TerminalEvent::Color { name, .. } if name == gname)
                    && ttyout::osc_color_matches(fmt, *color)
            }
            _ => g == want,
        };
        if !ok {
            return Err(Fail::new(
                format!("{oracle}/{}", classify(item)),
                format!(
                    "input \"{}\"{how}: event #{pos} decoded as {:?}, the bytes denote {:?} (item {:?}); all decoded: {:?}",
                    render(), g, want, item, got
                ),
            ));
        }
    }
    ensure!(
        got.len() == enc.expected.len(),
        format!("{oracle}/extra-events"),
        "input \"{}\"{how}: {} events expected, decoded {:?}",
        render(),
        enc.expected.len(),
        got
    );
    Ok(())
}

pub fn check_items(items: &[Item]) -> Outcome {
    check_case(items, None)
}

/// the same bytes under the read schedule; a failure is attributed to the ingredient it needs:
/// the cuts alone, the reads that return nothing, or the failed and retried reads
fn check_reads(items: &[Item], enc: &Encoded, cuts: &[(usize, Vec<Gap>)], drain: bool) -> Result<(), Fail> {
    let len = enc.bytes.len();
    let attempt = |empties: bool, faults: bool, oracle: &str| -> Result<(), Fail> {
        let steps = steps_of(cuts, len, drain, empties, faults);
        let got = guard(|| decode_scheduled(&enc.bytes, &steps))?;
        let how = format!(" delivered as {} (decoded correctly from a single buffer)", render_steps(&enc.bytes, &steps));
        compare(items, enc, &got, oracle, &how)
    };
    let full = attempt(true, true, "reads/retried-read-error-changes-events");
    if full.is_ok() {
        return Ok(());
    }
    attempt(false, false, "reads/cut-changes-events")?;
    attempt(true, false, "reads/empty-read-changes-events")?;
    full
}

pub fn check_case(items: &[Item], reads: Option<&Schedule>) -> Outcome {
    let enc = encode_items(items);
    let got = guard(|| decode_all(&enc.bytes))?;
    compare(items, &enc, &got, "decode", "")?;
    let families: std::collections::BTreeSet<&str> = items.iter().map(|i| i.family()).collect();
    let adjacent_diff = items.windows(2).any(|w| w[0].family() != w[1].family());
    let boundary = items.iter().any(|i| i.boundary_param());
    let mut pass = Pass::new(adjacent_diff || boundary);
    for f in families {
        pass = pass.label(f);
    }
    let table = &*TABLE;
    let esc_key_first = items.windows(2).any(|w| w[0].is_ambiguous_legacy(table));
    pass = pass.label_if(esc_key_first, "esc-prefixed-key-before-sequence");
    if let Some(sched) = reads {
        let bytes = &enc.bytes;
        let len = bytes.len();
        let cuts = sched.resolve(bytes);
        check_reads(items, &enc, &cuts, sched.drain)?;
        let (mut empty, mut fault, mut inside, mut prefix, mut pair, mut empty_at_prefix, mut fault_inside) =
            (false, false, false, false, false, false, false);
        for (pos, gaps) in &cuts {
            let p = *pos;
            let has_empty = gaps.contains(&Gap::Empty) || (sched.drain && p > 0);
            let has_fault = gaps.iter().any(|g| *g != Gap::Empty);
            let is_inside = p > 0 && p < len && enc.ends.binary_search(&p).is_err();
            let after_prefix = is_inside
                && (bytes[p - 1] == ESC || (p >= 2 && bytes[p - 2] == ESC && b"[OP]_".contains(&bytes[p - 1])));
            empty |= has_empty;
            fault |= has_fault;
            inside |= is_inside;
            prefix |= after_prefix;
            pair |= p >= 2 && p < len && bytes[p - 1] == ESC && bytes[p - 2] == ESC;
            empty_at_prefix |= after_prefix && has_empty;
            fault_inside |= is_inside && has_fault;
        }
        pass = pass
            .label("reads")
            .label_if(sched.drain, "reads/nothing-after-every-read")
            .label_if(empty, "reads/read-returns-nothing")
            .label_if(fault, "reads/failed-read-retried")
            .label_if(inside, "reads/cut-inside-item")
            .label_if(prefix, "reads/cut-after-ESC-or-introducer")
            .label_if(pair, "reads/cut-after-ESC-ESC")
            .label_if(empty_at_prefix, "reads/nothing-read-while-prefix-pending")
            .label_if(fault_inside, "reads/failed-read-inside-item");
    }
    Ok(pass.label_if(boundary, "boundary-parameter").label_if(items.len() >= 4, "seq>=4"))
}

impl Property for C04 {
    type Case = Case;

    fn fuzz(&self) -> Option<FuzzSpec> {
        // entropy-driven target: libFuzzer's bytes replace the generator's random numbers
        Some(FuzzSpec { target: "gen", jobs: 8, runs: 400_000, max_len: 2048, seeds: 64 })
    }

    fn id(&self) -> &'static str {
        "C04"
    }

    fn strategy(&self, _tier: Tier) -> BoxedStrategy<Case> {
        let n = TABLE.len();
        // the bare-ESC-prefixed keys (ESC itself, and the introducers read as alt+key): rare in
        // the table, but the ones whose candidate has to survive until the next sequence starts
        let ambiguous: Vec<usize> = (0..n).filter(|i| TABLE[*i].ambiguous).collect();
        let esc_key = TABLE.iter().position(|k| k.bytes == [ESC]).expect("table has ESC");
        let extra_keys = prop_oneof![
            17 => Just(Vec::new()),
            3 => proptest::collection::vec(
                (any::<u8>(), prop_oneof![3 => Just(esc_key), 2 => proptest::sample::select(ambiguous)]),
                1..=2
            ),
        ];
        let gap = || prop_oneof![3 => Just(Gap::Empty), 2 => Just(Gap::WouldBlock), 2 => Just(Gap::Interrupted)];
        let gaps = prop_oneof![
            4 => Just(Vec::new()),
            5 => proptest::collection::vec(gap(), 1..=1),
            2 => proptest::collection::vec(gap(), 2..=3),
        ];
        let snap = prop_oneof![
            3 => Just(Snap::Free),
            3 => Just(Snap::AfterEsc),
            3 => Just(Snap::AfterIntroducer),
            2 => Just(Snap::AfterEscEsc),
        ];
        let cut = (any::<u16>(), snap, gaps).prop_map(|(at, snap, gap)| Cut { at, snap, gap });
        let reads = prop_oneof![
            5 => Just(None),
            5 => (proptest::bool::weighted(0.3), proptest::collection::vec(cut, 1..=5))
                .prop_map(|(drain, cuts)| Some(Schedule { drain, cuts })),
        ];
        (proptest::collection::vec(ttyout::item_strategy(n), 1..=8), extra_keys, reads)
            .prop_map(|(mut items, extra_keys, reads)| {
                // such a key goes in front of an item whose encoding starts with ESC
                for (at, key) in extra_keys {
                    let mut enc = Vec::new();
                    let slots: Vec<usize> = (0..items.len())
                        .filter(|i| {
                            enc.clear();
                            items[*i].encode(&TABLE, &mut enc);
                            enc.first() == Some(&ESC)
                        })
                        .collect();
                    if !slots.is_empty() {
                        items.insert(slots[at as usize % slots.len()], Item::Legacy(key));
                    }
                }
                Case { items: ttyout::normalise(items, &TABLE), reads }
            })
            .boxed()
    }

    fn check(&self, case: &Case) -> Outcome {
        check_case(&case.items, case.reads.as_ref())
    }

    fn cases(&self, tier: Tier) -> u32 {
        tier.pick(100_000, 1_000_000)
    }

    fn rule(&self) -> String {
        "sequences of 1..=8 items: legacy/xterm/fixterms keys from the pinned naming table (every entry x modifier), printable text of any scalar values, SGR-1006 mouse (all 256 button codes, coords 1..65535 boundary-biased), CPR, DECRPM (every mode x status), DA1, SGR and DECRPSS parameter lists (all three truecolour spellings, 256-colour, named, attributes on/off, several colours in one sequence), OSC 4/10/11 colour replies (1-4 hex digits, #rrggbb, BEL/ST), XTGETTCAP success/failure, kitty keyboard (functional keys, F13-F35, any non-PUA scalar, alternates, mods 0..256, text field) and level reports, kitty graphics responses, XTWINOPS size pair, bracketed paste (up to 12 characters, rarely 1000-5000), and the CSI introducer followed by 0-6 parameter bytes and a non-ASCII character (no control sequence can contain one: the introducer is the alt+[ key and the bytes behind it are ordinary keys, in order); in 15% of the cases one or two bare-ESC-prefixed keys (ESC itself 3:2 over the introducers read as alt+key) are put in front of items that start with ESC; concatenated and decoded in one buffer; in 50% of the cases the same bytes are then decoded a second time by a fresh decoder under a generated read schedule: 1-5 cuts (position free, or moved to the next boundary right after an ESC, right after the byte that follows an ESC -- `ESC [`, `ESC O`, `ESC P`, `ESC ]`, `ESC _`, `ESC ESC` --, or right after `ESC ESC`), at every cut 0-3 reads that deliver nothing: a read that returns an empty slice, a read that fails with WouldBlock, a read that fails with Interrupted (after a failure the same decode call is made again on the same decoder and reader); in 30% of the schedules every delivered chunk is in addition followed by a read that returns nothing (the way Terminal::poll feeds the decoder: one Cursor per read(2), drained until None); one scripted BufRead, Decoder::decode called until it returns None with everything delivered and consumed; the event list must again be exactly the one the items denote, and a failure is attributed (by re-running the schedule without the failed reads, then without the empty reads) to reads/cut-changes-events, reads/empty-read-changes-events or reads/retried-read-error-changes-events; exhaustive sweep over every table key, every mouse code, every palette index, and -- for every table key followed by a report, and for one sequence of every other family -- over every cut position inside the input with each of the three kinds of read that delivers nothing at the cut. non-trivial = two adjacent items of different families or a boundary-valued parameter".into()
    }

    fn assumptions(&self) -> Vec<String> {
        vec![
            "key/button names and the RGB values of the 16 named colours are the library's fixed naming table, pinned as data in ttyout.rs/refsgr.rs".into(),
            "12/16-bit OSC colour components may be reduced to 8 bits by truncation or by rounding (any value in between is accepted); 4/8-bit components are exact".into(),
            "bare ESC and the CSI/SS3/DCS/OSC/APC introducers read as alt+key are only generated before another ESC-introduced item (at the end of input they stay pending) or -- CSI only -- before parameter bytes ended by a non-ASCII character, which by ECMA-48 no control sequence contains; CSI 1;nR (n in 2..=8) is expected as modified F3".into(),
            "the events denoted by a byte stream do not depend on how the bytes are delivered to Decoder::decode (the statement speaks of the bytes a terminal sends; C03 states the independence from read boundaries, empty reads included): the read schedule is a second delivery of the same bytes with the same expected events. io::BufRead contract relied on: fill_buf returning an empty slice delivers nothing; fill_buf failing with ErrorKind::WouldBlock or ErrorKind::Interrupted has consumed nothing and the operation may be retried, so a caller that repeats the decode call on the same decoder and reader must lose nothing. What decode returns for the call in which the reader failed (the error, or None) is not checked; an error without a reader failure is reads/io-error".into(),
            "a read that returns nothing is not end of input for a pending bare-ESC-prefixed key: no event is expected from it; at the very end of the input nothing is pending (such keys are not generated last), so trailing empty or failed reads add no expectation either".into(),
            "SGR codes outside what a face-modification record can express (2, 7, 27, 39, 49, 53, 59 ...) are not generated".into(),
        ]
    }

    fn sweep(&self, _tier: Tier, _seed: u64, sw: &mut Sweep) -> Result<(), (Case, Fail)> {
        let table = &*TABLE;
        let run = |items: Vec<Item>, sw: &mut Sweep| -> Result<(), (Case, Fail)> {
            sw.evaluations += 1;
            sw.nontrivial += 1;
            match guard(|| check_items(&items)) {
                Ok(_) => Ok(()),
                Err(f) => Err((Case { items, reads: None }, f)),
            }
        };
        // two reads with the cut at every position strictly inside the input, and at the cut a
        // read that returns nothing / fails with WouldBlock / fails with Interrupted
        let run_cuts = |items: Vec<Item>, sw: &mut Sweep| -> Result<(), (Case, Fail)> {
            let len = encode_items(&items).bytes.len();
            for c in 1..len {
                for gap in [Gap::Empty, Gap::WouldBlock, Gap::Interrupted] {
                    let reads = Schedule { drain: false, cuts: vec![Cut { at: frac_for(c, len), snap: Snap::Free, gap: vec![gap] }] };
                    sw.evaluations += 1;
                    sw.nontrivial += 1;
                    *sw.labels.entry("sweep-reads".into()).or_default() += 1;
                    if let Err(f) = guard(|| check_case(&items, Some(&reads))) {
                        return Err((Case { items, reads: Some(reads) }, f));
                    }
                }
            }
            Ok(())
        };
        // every key of the table alone, and followed by a self-delimiting report
        for i in 0..table.len() {
            run(vec![Item::Legacy(i), Item::Cpr { row: 3, col: 9 }], sw)?;
            run_cuts(vec![Item::Legacy(i), Item::Cpr { row: 3, col: 9 }], sw)?;
            if !table[i].ambiguous {
                run(vec![Item::Legacy(i)], sw)?;
                run(vec![Item::Legacy(i), Item::Text("x".into())], sw)?;
            }
        }
        // every mouse button code, press and release
        for code in 0..=255u8 {
            for press in [true, false] {
                run(vec![Item::Mouse { code, x: 1, y: 65535, press }], sw)?;
            }
        }
        // every palette index in both spellings and roles
        for n in 0..=255u8 {
            for role in [crate::refsgr::Role::Fg, crate::refsgr::Role::Bg, crate::refsgr::Role::Ul] {
                for form in [crate::refsgr::IdxForm::Colon, crate::refsgr::IdxForm::Semi] {
                    run(vec![Item::Sgr(vec![SgrParam::Idx { role, n, form }, SgrParam::Bold])], sw)?;
                }
            }
        }
        // every DEC mode x status
        for (mode, _) in ttyout::DEC_MODES {
            for status in 0..=4 {
                run(vec![Item::DecRpm { mode, status }], sw)?;
            }
        }
        // one sequence of every other family, cut everywhere
        let esc_key = table.iter().position(|k| k.bytes == [ESC]).expect("table has ESC");
        run_cuts(
            vec![
                Item::Mouse { code: 0, x: 94, y: 14, press: true },
                Item::Legacy(esc_key),
                Item::Osc { name: ttyout::ColorName::Bg, fmt: ttyout::ColorFmt::Rgb { digits: 4, comps: [0xcccc, 0x2424, 0x1d1d], upper: false }, term: ttyout::Term::St },
                Item::Paste("some text".into()),
                Item::Text("\u{e9}x".into()),
                Item::Legacy(esc_key),
                Item::TermcapOk(vec![("bold".into(), "\u{1b}[1m".into())]),
                Item::DecRpm { mode: 2026, status: 1 },
                Item::Da1(vec![62, 4]),
                Item::Sgr(vec![SgrParam::Bold]),
                Item::KittyKey { code: 97, alts: vec![], mods: Some(5), text: None },
                Item::KittyLevel(1),
                Item::KittyImage { id: 7, placement: None, error: None, extra_keys: false },
                Item::SizePair { cells: (80, 24), pixels: (800, 480) },
            ],
            sw,
        )?;
        sw.samples.push(serde_json::json!({"items": [{"Legacy": 0}, {"Cpr": {"row": 3, "col": 9}}]}));
        let reads_sweep = sw.labels.get("sweep-reads").copied().unwrap_or(0);
        *sw.labels.entry("sweep-table".into()).or_default() += sw.evaluations - reads_sweep;
        Ok(())
    }
}
