//! C04 — every well-formed terminal report or key sequence decodes to what it encodes.
//!
//! Generator: structured items (keys from the pinned naming table, mouse, reports, SGR,
//! OSC colours, termcap, kitty keyboard/graphics, paste, text) -> bytes through the
//! independent protocol printer (`ttyout`).  Oracle: exact equality of the decoded event list
//! with the events the items denote (single buffer; chunking is C03's subject).

use crate::engine::*;
use crate::refsgr::{RgbForm, SgrParam};
use crate::ttyout::{self, Item, LegacyKey};
use proptest::prelude::*;
use serde::{Deserialize, Serialize};
use std::sync::LazyLock;
use surf_n_term::TerminalEvent;
use surf_n_term::decoder::{Decoder, TTYEventDecoder};

pub struct C04;

pub static TABLE: LazyLock<Vec<LegacyKey>> = LazyLock::new(ttyout::legacy_table);

#[derive(Clone, Debug, Serialize, Deserialize)]
pub struct Case {
    pub items: Vec<Item>,
}

pub fn decode_all(bytes: &[u8]) -> Result<Vec<TerminalEvent>, Fail> {
    let mut dec = TTYEventDecoder::new();
    let mut out = Vec::new();
    let mut cur = std::io::Cursor::new(bytes);
    dec.decode_into(&mut cur, &mut out)
        .map_err(|e| Fail::new("decode/io-error", format!("decoder returned error {e:?}")))?;
    Ok(out)
}

fn classify(item: &Item) -> String {
    match item {
        Item::Sgr(params) | Item::Decrpss(params) => {
            let semi_followed = params.iter().enumerate().any(|(i, p)| {
                matches!(p, SgrParam::Rgb { form: RgbForm::Semi, .. }) && i + 1 < params.len()
            });
            let has = |f: fn(&SgrParam) -> bool| params.iter().any(f);
            if semi_followed {
                format!("{}/semicolon-rgb-followed-by-parameter", item.family())
            } else if has(|p| matches!(p, SgrParam::BoldOff)) {
                format!("{}/22-normal-intensity", item.family())
            } else if has(|p| matches!(p, SgrParam::DoubleUnderline)) {
                format!("{}/21-double-underline", item.family())
            } else {
                format!("{}/other", item.family())
            }
        }
        Item::DecRpm { mode, .. } => format!("decrpm/mode-{mode}"),
        other => other.family().to_string(),
    }
}

pub fn check_items(items: &[Item]) -> Outcome {
    let table = &*TABLE;
    let mut bytes = Vec::new();
    let mut expected: Vec<(usize, TerminalEvent)> = Vec::new();
    for (idx, item) in items.iter().enumerate() {
        item.encode(table, &mut bytes);
        let mut ev = Vec::new();
        item.expected(table, &mut ev);
        expected.extend(ev.into_iter().map(|e| (idx, e)));
    }
    let got = guard(|| decode_all(&bytes))?;
    let render = || String::from_utf8_lossy(&bytes).escape_debug().to_string();
    for (pos, (idx, want)) in expected.iter().enumerate() {
        let item = &items[*idx];
        let Some(g) = got.get(pos) else {
            return Err(Fail::new(
                format!("decode/{}/missing", classify(item)),
                format!(
                    "input \"{}\": expected event #{pos} {:?} (from {:?}) but only {} events were decoded: {:?}",
                    render(), want, item, got.len(), got
                ),
            ));
        };
        let ok = match (item, g) {
            (Item::Osc { fmt, name: _, .. }, TerminalEvent::Color { name: gname, color }) => {
                matches!(want, TerminalEvent::Color { name, .. } if name == gname)
                    && ttyout::osc_color_matches(fmt, *color)
            }
            _ => g == want,
        };
        if !ok {
            return Err(Fail::new(
                format!("decode/{}", classify(item)),
                format!(
                    "input \"{}\": event #{pos} decoded as {:?}, the bytes denote {:?} (item {:?}); all decoded: {:?}",
                    render(), g, want, item, got
                ),
            ));
        }
    }
    ensure!(
        got.len() == expected.len(),
        "decode/extra-events",
        "input \"{}\": {} events expected, decoded {:?}",
        render(),
        expected.len(),
        got
    );
    let families: std::collections::BTreeSet<&str> = items.iter().map(|i| i.family()).collect();
    let adjacent_diff = items.windows(2).any(|w| w[0].family() != w[1].family());
    let boundary = items.iter().any(|i| i.boundary_param());
    let mut pass = Pass::new(adjacent_diff || boundary);
    for f in families {
        pass = pass.label(f);
    }
    Ok(pass.label_if(boundary, "boundary-parameter").label_if(items.len() >= 4, "seq>=4"))
}

impl Property for C04 {
    type Case = Case;

    fn fuzz(&self) -> Option<FuzzSpec> {
        // entropy-driven target: libFuzzer's bytes replace the generator's random numbers
        Some(FuzzSpec { target: "gen", jobs: 8, runs: 400_000, max_len: 2048, seeds: 64 })
    }

    fn id(&self) -> &'static str {
        "C04"
    }

    fn strategy(&self, _tier: Tier) -> BoxedStrategy<Case> {
        let n = TABLE.len();
        proptest::collection::vec(ttyout::item_strategy(n), 1..=8)
            .prop_map(|items| Case { items: ttyout::normalise(items, &TABLE) })
            .boxed()
    }

    fn check(&self, case: &Case) -> Outcome {
        check_items(&case.items)
    }

    fn cases(&self, tier: Tier) -> u32 {
        tier.pick(100_000, 1_000_000)
    }

    fn rule(&self) -> String {
        "sequences of 1..=8 items: legacy/xterm/fixterms keys from the pinned naming table (every entry x modifier), printable text of any scalar values, SGR-1006 mouse (all 256 button codes, coords 1..65535 boundary-biased), CPR, DECRPM (every mode x status), DA1, SGR and DECRPSS parameter lists (all three truecolour spellings, 256-colour, named, attributes on/off, several colours in one sequence), OSC 4/10/11 colour replies (1-4 hex digits, #rrggbb, BEL/ST), XTGETTCAP success/failure, kitty keyboard (functional keys, F13-F35, any non-PUA scalar, alternates, mods 0..256, text field) and level reports, kitty graphics responses, XTWINOPS size pair, bracketed paste (up to 12 characters, rarely 1000-5000), and the CSI introducer followed by 0-6 parameter bytes and a non-ASCII character (no control sequence can contain one: the introducer is the alt+[ key and the bytes behind it are ordinary keys, in order); concatenated and decoded in one buffer; exhaustive sweep over every table key, every mouse code, every palette index. non-trivial = two adjacent items of different families or a boundary-valued parameter".into()
    }

    fn assumptions(&self) -> Vec<String> {
        vec![
            "key/button names and the RGB values of the 16 named colours are the library's fixed naming table, pinned as data in ttyout.rs/refsgr.rs".into(),
            "12/16-bit OSC colour components may be reduced to 8 bits by truncation or by rounding (any value in between is accepted); 4/8-bit components are exact".into(),
            "bare ESC and the CSI/SS3/DCS/OSC/APC introducers read as alt+key are only generated before another ESC-introduced item (at the end of input they stay pending) or -- CSI only -- before parameter bytes ended by a non-ASCII character, which by ECMA-48 no control sequence contains; CSI 1;nR (n in 2..=8) is expected as modified F3".into(),
            "SGR codes outside what a face-modification record can express (2, 7, 27, 39, 49, 53, 59 ...) are not generated".into(),
        ]
    }

    fn sweep(&self, _tier: Tier, _seed: u64, sw: &mut Sweep) -> Result<(), (Case, Fail)> {
        let table = &*TABLE;
        let run = |items: Vec<Item>, sw: &mut Sweep| -> Result<(), (Case, Fail)> {
            sw.evaluations += 1;
            sw.nontrivial += 1;
            match guard(|| check_items(&items)) {
                Ok(_) => Ok(()),
                Err(f) => Err((Case { items }, f)),
            }
        };
        // every key of the table alone, and followed by a self-delimiting report
        for i in 0..table.len() {
            run(vec![Item::Legacy(i), Item::Cpr { row: 3, col: 9 }], sw)?;
            if !table[i].ambiguous {
                run(vec![Item::Legacy(i)], sw)?;
                run(vec![Item::Legacy(i), Item::Text("x".into())], sw)?;
            }
        }
        // every mouse button code, press and release
        for code in 0..=255u8 {
            for press in [true, false] {
                run(vec![Item::Mouse { code, x: 1, y: 65535, press }], sw)?;
            }
        }
        // every palette index in both spellings and roles
        for n in 0..=255u8 {
            for role in [crate::refsgr::Role::Fg, crate::refsgr::Role::Bg, crate::refsgr::Role::Ul] {
                for form in [crate::refsgr::IdxForm::Colon, crate::refsgr::IdxForm::Semi] {
                    run(vec![Item::Sgr(vec![SgrParam::Idx { role, n, form }, SgrParam::Bold])], sw)?;
                }
            }
        }
        // every DEC mode x status
        for (mode, _) in ttyout::DEC_MODES {
            for status in 0..=4 {
                run(vec![Item::DecRpm { mode, status }], sw)?;
            }
        }
        sw.samples.push(serde_json::json!({"items": [{"Legacy": 0}, {"Cpr": {"row": 3, "col": 9}}]}));
        *sw.labels.entry("sweep-table".into()).or_default() += sw.evaluations;
        Ok(())
    }
}
