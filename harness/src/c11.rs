//! C11 — kitty graphics output transmits exactly the image; draw and erase stay paired.
//!
//! Generator: a pool of image *contents* (size incl. empty, 1x1 and sizes whose base64 payload
//! lands on / next to the 4096-byte chunk boundary; solid, explicit, ramp and noise pixels),
//! realised as `Image`s in several ways (owned, `Image::new`, crops, views, strided and
//! column-major `from_parts`, transposed) so that content-equal images with different `Arc`s
//! and strides meet on one handler; a pool of positions biased to the origin, row 0, column 0
//! and 65535; a history of Draw / Erase / response events on one `KittyImageHandler`.
//!
//! Oracle: the bytes written by every call are tokenised by an independent ECMA-48 scanner
//! (APC `ESC _ G … ESC \`, `ESC 7`, `ESC 8`, `CSI r;c H`), the graphics commands are parsed
//! from the kitty graphics protocol specification, base64 is decoded by an own RFC 4648
//! decoder, and the commands are executed on a reference model of the terminal side of the
//! protocol (image table keyed by id, placements keyed by (image id, placement id) with
//! `p=0`/absent = unspecified, `a=d,d=i` with and without `p`, error response = the data of
//! that id is gone).
//!
//! Fault class: any event of the history may be issued with a writer that accepts a generated
//! number of bytes and then fails with an `io::Error` (a terminal that went away, a full pipe);
//! the history continues on a healthy writer.  Nothing is demanded of the failed call itself;
//! what it emitted is only *observed* (was a transmission cut? did a complete transmission go
//! into the failed writer?) so that the model knows what the terminal certainly does not hold
//! and what it may hold.  Every later call is checked as always.

use crate::engine::*;
use proptest::prelude::*;
use serde::{Deserialize, Serialize};
use std::collections::{BTreeMap, BTreeSet};
use std::sync::Arc;
use surf_n_term::{
    Color,
    Image, ImageHandler, KittyImageHandler, Position, RGBA, Shape, Size, Surface, SurfaceOwned,
    TerminalEvent,
};

pub struct C11;

/// 1x1 image whose content hash is a multiple of 2^32-1 (the handler derives image id 0)
const ZERO_ID_PIXEL: [u8; 4] = [178, 12, 127, 104];
/// two 1x1 images whose content hashes agree mod 2^32-1 (the handler derives the same id)
const COLLIDING_PIXELS: ([u8; 4], [u8; 4]) = ([176, 33, 245, 142], [162, 235, 241, 237]);

// ---------------------------------------------------------------------------------------
// case

#[derive(Clone, Debug, PartialEq, Eq, Serialize, Deserialize)]
pub enum Pix {
    /// every pixel the same
    Solid([u8; 4]),
    /// pixel i = v[i mod len]
    Explicit(Vec<[u8; 4]>),
    /// byte ramp: pixel i = [b, b+1, b+2, b+3] with b = 7 i + k (covers every byte value)
    Ramp(u8),
    /// pixel i = low 32 bits of splitmix64(seed + i)
    Noise(u64),
}

#[derive(Clone, Debug, PartialEq, Eq, Serialize, Deserialize)]
pub struct Content {
    pub h: usize,
    pub w: usize,
    pub pix: Pix,
}

/// How a content is realised as an `Image`
#[derive(Clone, Debug, PartialEq, Eq, Serialize, Deserialize)]
pub enum Build {
    /// `Image::from(SurfaceOwned)`
    Owned,
    /// `Image::new(&SurfaceOwned)`
    New,
    /// `Image::from(padded).crop(top..top+h, left..left+w)`
    Crop {
        top: usize,
        left: usize,
        bottom: usize,
        right: usize,
    },
    /// `Image::new(padded.view(top..top+h, left..left+w))`
    View {
        top: usize,
        left: usize,
        bottom: usize,
        right: usize,
    },
    /// `Image::from_parts(arc, Shape{..})` with explicit strides
    Parts {
        offset: usize,
        stride: usize,
        gap: usize,
        col_major: bool,
    },
    /// `Image::new(SurfaceOwned(w x h).transpose())`
    Transposed,
}

#[derive(Clone, Debug, PartialEq, Eq, Serialize, Deserialize)]
pub struct ImgSpec {
    pub content: usize,
    pub build: Build,
}

#[derive(Clone, Debug, PartialEq, Eq, Serialize, Deserialize)]
pub enum Place {
    /// response without `p`
    None,
    /// the n-th placement id the handler has used for this image so far (if any)
    Known(usize),
    /// arbitrary value
    Raw(u64),
}

#[derive(Clone, Debug, PartialEq, Eq, Serialize, Deserialize)]
pub enum Ev {
    Draw {
        img: usize,
        pos: usize,
    },
    Erase {
        img: usize,
        pos: Option<usize>,
    },
    /// response of the terminal about the id the handler uses for image `img`
    Resp {
        img: usize,
        place: Place,
        error: bool,
    },
    /// response with arbitrary numbers
    RespRaw {
        id: u64,
        placement: Option<u64>,
        error: bool,
    },
    /// the wrapped event, issued with a writer that accepts everything up to the end of the
    /// `after_st`-th complete command (string terminator `ESC \`) it is given, then `room` more
    /// bytes, and then fails every further write (`kind`: 0 BrokenPipe, 1 WouldBlock, 2 Other,
    /// 3 `Ok(0)`); the next event of the history gets a healthy writer again
    Failing {
        ev: Box<Ev>,
        room: usize,
        kind: u8,
        #[serde(default)]
        after_st: u8,
    },
}

#[derive(Clone, Copy, Debug)]
struct Fault {
    after_st: u8,
    room: usize,
    kind: u8,
}

impl Ev {
    /// the event itself and the fault of its writer, if any (of nested faults the outermost)
    fn peel(&self) -> (&Ev, Option<Fault>) {
        let mut ev = self;
        let mut fault = None;
        while let Ev::Failing { ev: inner, room, kind, after_st } = ev {
            fault = fault.or(Some(Fault { after_st: *after_st, room: *room, kind: *kind }));
            ev = inner;
        }
        (ev, fault)
    }
}

/// The writer handed to the handler: unlimited (`room == usize::MAX`, behaves like a `Vec`) or
/// accepting `skip_st` complete commands and `room` bytes more -- the last write possibly in
/// part, as `io::Write::write` may -- and failing from then on.  `Interrupted` is not among the
/// errors (`write_all` must retry it).
struct Sink {
    data: Vec<u8>,
    skip_st: u8,
    room: usize,
    kind: u8,
    /// a write was refused
    failed: bool,
}

impl Sink {
    fn new(fault: Option<Fault>) -> Self {
        let f = fault.unwrap_or(Fault { after_st: 0, room: usize::MAX, kind: 0 });
        Sink {
            data: Vec::new(),
            skip_st: f.after_st,
            room: f.room,
            kind: f.kind,
            failed: false,
        }
    }
}

impl std::io::Write for Sink {
    fn write(&mut self, buf: &[u8]) -> std::io::Result<usize> {
        use std::io::{Error, ErrorKind};
        if buf.is_empty() {
            return Ok(0);
        }
        if self.skip_st > 0 {
            // unlimited up to the end of the `skip_st`-th command (a write that goes beyond
            // it is accepted in part)
            for (i, b) in buf.iter().enumerate() {
                let esc_before = match i {
                    0 => self.data.last() == Some(&0x1b),
                    _ => buf[i - 1] == 0x1b,
                };
                if *b == b'\\' && esc_before {
                    self.skip_st -= 1;
                    if self.skip_st == 0 {
                        self.data.extend_from_slice(&buf[..=i]);
                        return Ok(i + 1);
                    }
                }
            }
            self.data.extend_from_slice(buf);
            return Ok(buf.len());
        }
        if self.room == 0 {
            self.failed = true;
            return match self.kind % 4 {
                0 => Err(ErrorKind::BrokenPipe.into()),
                1 => Err(ErrorKind::WouldBlock.into()),
                2 => Err(Error::new(ErrorKind::Other, "the terminal went away")),
                _ => Ok(0),
            };
        }
        let n = buf.len().min(self.room);
        if self.room != usize::MAX {
            self.room -= n;
        }
        self.data.extend_from_slice(&buf[..n]);
        Ok(n)
    }
    fn flush(&mut self) -> std::io::Result<()> {
        Ok(())
    }
}

#[derive(Clone, Debug, Serialize, Deserialize)]
pub struct Case {
    pub quiet: bool,
    pub contents: Vec<Content>,
    pub imgs: Vec<ImgSpec>,
    pub poss: Vec<(usize, usize)>,
    pub evs: Vec<Ev>,
    /// all non-empty images of the case are crops of ONE backing `Image` object (windows into
    /// one picture), whatever their `build` says
    #[serde(default)]
    pub shared_backing: bool,
    /// (with `shared_backing`) history on the image objects: the backing picture itself is drawn
    /// first, and only then are the windows cropped out of it -- nothing remembered for the
    /// picture (identity, transmission state) may be inherited by a window with other content
    #[serde(default)]
    pub late_windows: bool,
    /// (with `shared_backing`) the windows span the full width of the backing picture (only
    /// the images of maximal width take part): contiguous row ranges of one buffer that differ
    /// in nothing but their start offset
    #[serde(default)]
    pub full_width_windows: bool,
    /// (with `shared_backing`, without `late_windows`) the backing picture is a 96 MiB atlas
    /// (2048 x 12288 pixels) of which the windows are small sprites: whatever a handler remembers
    /// per image must be bounded by the window, not by the buffer the window keeps alive
    #[serde(default)]
    pub huge_backing: bool,
}

// ---------------------------------------------------------------------------------------
// image construction

fn splitmix(x: u64) -> u64 {
    let x = x.wrapping_add(0x9E37_79B9_7F4A_7C15);
    let mut z = x;
    z = (z ^ (z >> 30)).wrapping_mul(0xBF58_476D_1CE4_E5B9);
    z = (z ^ (z >> 27)).wrapping_mul(0x94D0_49BB_1331_11EB);
    z ^ (z >> 31)
}

impl Content {
    fn px(&self, i: usize) -> [u8; 4] {
        match &self.pix {
            Pix::Solid(p) => *p,
            Pix::Explicit(v) => {
                if v.is_empty() {
                    [0; 4]
                } else {
                    v[i % v.len()]
                }
            }
            Pix::Ramp(k) => {
                let b = (i as u64).wrapping_mul(7).wrapping_add(*k as u64);
                [b as u8, (b + 1) as u8, (b + 2) as u8, (b + 3) as u8]
            }
            Pix::Noise(s) => (splitmix(s.wrapping_add(i as u64)) as u32).to_le_bytes(),
        }
    }

    fn is_empty(&self) -> bool {
        self.h == 0 || self.w == 0
    }

    /// the RGBA bytes in row-major order (the specification of what must be transmitted)
    fn bytes(&self) -> Vec<u8> {
        let mut out = Vec::with_capacity(self.h * self.w * 4);
        for i in 0..self.h * self.w {
            out.extend_from_slice(&self.px(i));
        }
        out
    }
}

fn rgba(p: [u8; 4]) -> RGBA {
    RGBA::new(p[0], p[1], p[2], p[3])
}

fn garbage(i: usize) -> RGBA {
    RGBA::new(0xDE, 0xAD, (i * 13) as u8, 0x5A)
}

fn padded(c: &Content, top: usize, left: usize, bottom: usize, right: usize) -> SurfaceOwned<RGBA> {
    let (h, w) = (c.h, c.w);
    SurfaceOwned::new_with(
        Size {
            height: h + top + bottom,
            width: w + left + right,
        },
        |p| {
            if p.row >= top && p.row < top + h && p.col >= left && p.col < left + w {
                rgba(c.px((p.row - top) * w + (p.col - left)))
            } else {
                garbage(p.row * 31 + p.col)
            }
        },
    )
}

fn build_image(c: &Content, b: &Build) -> Image {
    let (h, w) = (c.h, c.w);
    let plain = || {
        SurfaceOwned::new_with(
            Size {
                height: h,
                width: w,
            },
            |p| rgba(c.px(p.row * w + p.col)),
        )
    };
    match *b {
        Build::Owned => Image::from(plain()),
        Build::New => Image::new(&plain()),
        Build::Crop {
            top,
            left,
            bottom,
            right,
        } => Image::from(padded(c, top, left, bottom, right)).crop(top..top + h, left..left + w),
        Build::View {
            top,
            left,
            bottom,
            right,
        } => {
            let big = padded(c, top, left, bottom, right);
            Image::new(big.view(top..top + h, left..left + w))
        }
        Build::Parts {
            offset,
            stride,
            gap,
            col_major,
        } => {
            let s = stride.max(1);
            let (rs, cs) = if col_major {
                (s, h * s + gap)
            } else {
                (w * s + gap, s)
            };
            let span = if c.is_empty() {
                0
            } else {
                (h - 1) * rs + (w - 1) * cs + 1
            };
            let len = offset + span + gap;
            let mut data: Vec<RGBA> = (0..len).map(garbage).collect();
            for r in 0..h {
                for col in 0..w {
                    data[offset + r * rs + col * cs] = rgba(c.px(r * w + col));
                }
            }
            Image::from_parts(
                Arc::from(data),
                Shape {
                    start: offset,
                    end: offset + span,
                    width: w,
                    height: h,
                    row_stride: rs,
                    col_stride: cs,
                },
            )
        }
        Build::Transposed => {
            let base = SurfaceOwned::new_with(
                Size {
                    height: w,
                    width: h,
                },
                |p| rgba(c.px(p.col * w + p.row)),
            );
            Image::new(base.transpose())
        }
    }
}

// ---------------------------------------------------------------------------------------
// independent scanner for the emitted bytes

#[derive(Debug)]
enum Tok<'a> {
    /// `ESC _ G <control> [; <payload>] ESC \`
    Gfx {
        control: &'a [u8],
        payload: &'a [u8],
    },
    SaveCursor,
    RestoreCursor,
    /// CUP, 0-based
    CursorTo(usize, usize),
}

fn show(bytes: &[u8]) -> String {
    let mut s = String::new();
    for &b in bytes.iter().take(160) {
        match b {
            0x1b => s.push_str("\\e"),
            0x20..=0x7e => s.push(b as char),
            _ => s.push_str(&format!("\\x{b:02x}")),
        }
    }
    if bytes.len() > 160 {
        s.push_str(&format!("…(+{} bytes)", bytes.len() - 160));
    }
    s
}

fn tokenize(out: &[u8]) -> Result<Vec<Tok<'_>>, Fail> {
    let mut toks = Vec::new();
    let mut done = 0;
    scan(out, &mut toks, &mut done)?;
    Ok(toks)
}

/// Tokenises `out`; `done` is the offset behind the last complete sequence (on an error: the
/// offset at which the offending sequence starts, `toks` holds everything before it).
fn scan<'a>(out: &'a [u8], toks: &mut Vec<Tok<'a>>, done: &mut usize) -> Result<(), Fail> {
    let mut i = 0;
    while i < out.len() {
        *done = i;
        ensure!(
            out[i] == 0x1b && i + 1 < out.len(),
            "syntax/stray-bytes",
            "byte {:#04x} at offset {} is not part of an escape sequence: {}",
            out[i],
            i,
            show(&out[i..])
        );
        match out[i + 1] {
            b'_' => {
                // APC: up to ST (ESC \); no other C0/ESC inside
                let body_start = i + 2;
                let mut j = body_start;
                loop {
                    ensure!(
                        j < out.len(),
                        "syntax/unterminated-apc",
                        "APC starting at offset {} is not terminated by ESC \\: {}",
                        i,
                        show(&out[i..])
                    );
                    if out[j] == 0x1b {
                        ensure!(
                            j + 1 < out.len() && out[j + 1] == b'\\',
                            "syntax/unterminated-apc",
                            "ESC inside APC at offset {} is not the string terminator: {}",
                            j,
                            show(&out[i..])
                        );
                        break;
                    }
                    ensure!(
                        (0x20..=0x7e).contains(&out[j]),
                        "syntax/apc-bad-byte",
                        "byte {:#04x} inside APC at offset {}: {}",
                        out[j],
                        j,
                        show(&out[i..])
                    );
                    j += 1;
                }
                let body = &out[body_start..j];
                ensure!(
                    body.first() == Some(&b'G'),
                    "syntax/non-graphics-apc",
                    "APC is not a graphics command: {}",
                    show(&out[i..j + 2])
                );
                let body = &body[1..];
                let (control, payload) = match body.iter().position(|b| *b == b';') {
                    Some(k) => (&body[..k], &body[k + 1..]),
                    None => (body, &body[body.len()..]),
                };
                toks.push(Tok::Gfx { control, payload });
                i = j + 2;
            }
            b'7' => {
                toks.push(Tok::SaveCursor);
                i += 2;
            }
            b'8' => {
                toks.push(Tok::RestoreCursor);
                i += 2;
            }
            b'[' => {
                let mut j = i + 2;
                while j < out.len() && (0x30..=0x3f).contains(&out[j]) {
                    j += 1;
                }
                let params = &out[i + 2..j];
                ensure!(
                    j < out.len() && out[j] == b'H',
                    "syntax/unsupported-escape",
                    "control sequence other than CUP: {}",
                    show(&out[i..])
                );
                let mut nums = [1usize, 1usize];
                let parts: Vec<&[u8]> = params.split(|b| *b == b';').collect();
                ensure!(
                    parts.len() <= 2,
                    "syntax/bad-cup",
                    "CUP with more than two parameters: {}",
                    show(&out[i..=j])
                );
                for (k, part) in parts.iter().enumerate() {
                    if part.is_empty() {
                        continue;
                    }
                    ensure!(
                        part.iter().all(|b| b.is_ascii_digit()) && part.len() <= 30,
                        "syntax/bad-cup",
                        "CUP parameter is not a number: {}",
                        show(&out[i..=j])
                    );
                    let n: u128 = std::str::from_utf8(part).unwrap().parse().unwrap();
                    nums[k] = n.clamp(1, u32::MAX as u128) as usize;
                }
                toks.push(Tok::CursorTo(nums[0] - 1, nums[1] - 1));
                i = j + 1;
            }
            other => {
                return Err(Fail::new(
                    "syntax/unsupported-escape",
                    format!("ESC {:#04x} at offset {}: {}", other, i, show(&out[i..])),
                ));
            }
        }
    }
    *done = out.len();
    Ok(())
}

/// RFC 4648 §4 base64 with mandatory padding
fn base64_decode(data: &[u8]) -> Result<Vec<u8>, String> {
    if data.len() % 4 != 0 {
        return Err(format!("length {} is not a multiple of 4", data.len()));
    }
    fn val(b: u8) -> Option<u32> {
        match b {
            b'A'..=b'Z' => Some((b - b'A') as u32),
            b'a'..=b'z' => Some((b - b'a') as u32 + 26),
            b'0'..=b'9' => Some((b - b'0') as u32 + 52),
            b'+' => Some(62),
            b'/' => Some(63),
            _ => None,
        }
    }
    let mut out = Vec::with_capacity(data.len() / 4 * 3);
    let groups = data.len() / 4;
    for (g, quad) in data.chunks(4).enumerate() {
        let last = g + 1 == groups;
        let pad = if last && quad[3] == b'=' {
            if quad[2] == b'=' { 2 } else { 1 }
        } else {
            0
        };
        let mut acc = 0u32;
        for (k, &b) in quad.iter().enumerate() {
            let v = if k >= 4 - pad {
                0
            } else {
                val(b).ok_or_else(|| {
                    format!("byte {:#04x} at offset {} is not in the alphabet", b, g * 4 + k)
                })?
            };
            acc = (acc << 6) | v;
        }
        let bytes = [(acc >> 16) as u8, (acc >> 8) as u8, acc as u8];
        out.extend_from_slice(&bytes[..3 - pad]);
    }
    Ok(out)
}

// ---------------------------------------------------------------------------------------
// graphics command parser (from the kitty graphics protocol specification)

#[derive(Clone, Copy, Debug, PartialEq, Eq)]
enum Val {
    Ch(u8),
    Num(i64),
}

struct Cmd {
    keys: BTreeMap<u8, Val>,
}

const CHAR_KEYS: &[u8] = b"atod";
const UNSIGNED_KEYS: &[u8] = b"qfsvSOiIpmxywhXYcrCUPQ";
const SIGNED_KEYS: &[u8] = b"zHV";
const MAX_ID: i64 = 4_294_967_295;

impl Cmd {
    fn parse(control: &[u8]) -> Result<Cmd, Fail> {
        let bad = |why: String| {
            Fail::new(
                "syntax/bad-control-data",
                format!("{why} in control data {:?}", show(control)),
            )
        };
        let mut keys = BTreeMap::new();
        if control.is_empty() {
            return Err(bad("empty control data".into()));
        }
        for item in control.split(|b| *b == b',') {
            if item.len() < 3 || item[1] != b'=' {
                return Err(bad(format!("item {:?} is not key=value", show(item))));
            }
            let (k, v) = (item[0], &item[2..]);
            let val = if CHAR_KEYS.contains(&k) {
                if v.len() != 1 || !v[0].is_ascii_alphabetic() {
                    return Err(bad(format!("key {} needs a single letter", k as char)));
                }
                Val::Ch(v[0])
            } else if UNSIGNED_KEYS.contains(&k) || SIGNED_KEYS.contains(&k) {
                let (neg, digits) = match v.split_first() {
                    Some((b'-', rest)) if SIGNED_KEYS.contains(&k) => (true, rest),
                    _ => (false, v),
                };
                if digits.is_empty() || digits.len() > 10 || !digits.iter().all(u8::is_ascii_digit)
                {
                    return Err(bad(format!("key {} needs a number", k as char)));
                }
                let n: i64 = std::str::from_utf8(digits).unwrap().parse().unwrap();
                if n > MAX_ID {
                    return Err(bad(format!("value of key {} exceeds 32 bits", k as char)));
                }
                Val::Num(if neg { -n } else { n })
            } else {
                return Err(bad(format!("unknown key {:?}", show(&[k]))));
            };
            keys.insert(k, val); // a repeated key: last wins (kitty)
        }
        let cmd = Cmd { keys };
        for (k, allowed) in [(b'q', 2), (b'm', 1), (b'C', 1)] {
            if let Some(v) = cmd.num(k) {
                if v > allowed {
                    return Err(bad(format!("{}={} out of range", k as char, v)));
                }
            }
        }
        Ok(cmd)
    }
    fn num(&self, k: u8) -> Option<i64> {
        match self.keys.get(&k) {
            Some(Val::Num(n)) => Some(*n),
            _ => None,
        }
    }
    fn ch(&self, k: u8) -> Option<u8> {
        match self.keys.get(&k) {
            Some(Val::Ch(c)) => Some(*c),
            _ => None,
        }
    }
    fn only(&self, allowed: &[u8]) -> bool {
        self.keys.keys().all(|k| allowed.contains(k))
    }
}

// ---------------------------------------------------------------------------------------
// reference model of the terminal side + bookkeeping of the history

#[derive(Clone, Debug)]
struct Placement {
    img: u64,
    /// 0 = created without a placement id
    pid: u64,
    /// key of the content stored under `img` when the placement was made
    content: usize,
    /// cell at which it was created (None: cursor position unknown)
    at: Option<(usize, usize)>,
    serial: usize,
}

struct Pending {
    action: u8,
    id: u64,
    pid: u64,
    w: i64,
    h: i64,
    payload: Vec<u8>,
    chunks: usize,
    last_len: usize,
}

#[derive(Clone, Copy, PartialEq, Eq)]
enum Ctx {
    Draw { key: usize, pos: (usize, usize) },
    Erase,
    /// handling a response; `about` = the placement id it names, if that is a placement the
    /// handler itself created by a draw of this image
    Resp { about: Option<u64> },
}

impl Ctx {
    fn name(&self) -> &'static str {
        match self {
            Ctx::Draw { .. } => "draw",
            Ctx::Erase => "erase",
            Ctx::Resp { .. } => "response",
        }
    }
}

#[derive(Default)]
struct Model {
    // terminal side
    images: BTreeMap<u64, usize>,
    placements: Vec<Placement>,
    pending: Option<Pending>,
    cursor: Option<(usize, usize)>,
    saved: Option<(usize, usize)>,
    serial: usize,
    // history bookkeeping
    /// content key -> id under which its pixels are currently held by the terminal
    live_tx: BTreeMap<usize, u64>,
    /// content key -> id the handler uses for it (learned from the output)
    id_of: BTreeMap<usize, u64>,
    content_of_id: BTreeMap<u64, usize>,
    /// id -> placement ids used by Draw events, in order of first use
    puts_of: BTreeMap<u64, Vec<u64>>,
    /// (id, placement id) -> cell of the last Draw that used it
    pos_of_put: BTreeMap<(u64, u64), (usize, usize)>,
    // calls whose writer failed
    /// id -> content whose transmission went *completely* into a writer that failed later in
    /// the same call: the terminal may or may not hold it (every write of the transmission
    /// returned Ok, so the handler may rely on it; nobody promised that the bytes arrived)
    maybe: BTreeMap<u64, usize>,
    /// contents the terminal did not hold when a call that would have transmitted them lost
    /// its writer before the transmission was complete: certainly still not held
    cut_keys: BTreeSet<usize>,
    /// some call of the history so far lost its writer inside a transmission
    cut_seen: bool,
    // per event
    ev_puts: usize,
    ev_deleted: BTreeSet<usize>,
    ev_delete_p: Vec<i64>,
    ev_transmits: usize,
}

struct Run {
    /// deduplicated contents: (h, w, bytes)
    table: Vec<(usize, usize, Vec<u8>)>,
    m: Model,
    labels: BTreeSet<String>,
    deferred: Option<Fail>,
    nontrivial: bool,
    evno: usize,
}

/// failure classes that are recorded as genuine findings of the unchanged library; the
/// history keeps being checked after them (the model applies what kitty does) so that other
/// violations in the same history are not masked.
const DEFERRED: &[&str] = &[
    "put/untransmitted-image/empty-image",
    "erase/deletes-other-placements/origin-p0",
];

impl Run {
    fn label(&mut self, l: &str) {
        if !self.labels.contains(l) {
            self.labels.insert(l.to_string());
        }
    }

    fn raise(&mut self, f: Fail) -> Result<(), Fail> {
        if DEFERRED.contains(&f.sig.as_str()) {
            if self.deferred.is_none() {
                self.deferred = Some(f);
            }
            Ok(())
        } else {
            Err(f)
        }
    }

    fn content_empty(&self, key: usize) -> bool {
        self.table[key].2.is_empty()
    }

    fn exec(&mut self, out: &[u8], ctx: Ctx) -> Result<(), Fail> {
        let ev = self.evno;
        let toks = tokenize(out).map_err(|f| {
            Fail::new(
                format!("{}/{}", f.sig, ctx.name()),
                format!("event #{ev} ({}): {}", ctx.name(), f.msg),
            )
        })?;
        // where the cursor is when the handler is called: at `pos` for draw (its contract),
        // anywhere for erase / response
        self.m.cursor = match ctx {
            Ctx::Draw { pos, .. } => Some(pos),
            _ => None,
        };
        self.m.saved = None;
        self.m.ev_puts = 0;
        self.m.ev_deleted.clear();
        self.m.ev_delete_p.clear();
        self.m.ev_transmits = 0;
        for tok in &toks {
            match tok {
                Tok::SaveCursor | Tok::RestoreCursor | Tok::CursorTo(..)
                    if matches!(ctx, Ctx::Draw { .. }) =>
                {
                    // "The bytes emitted to draw an image … form valid graphics-protocol commands"
                    return Err(Fail::new(
                        "draw/non-graphics-bytes",
                        format!(
                            "event #{ev}: draw emitted a non-graphics sequence {tok:?}: {}",
                            show(out)
                        ),
                    ));
                }
                Tok::SaveCursor => self.m.saved = self.m.cursor,
                Tok::RestoreCursor => self.m.cursor = self.m.saved,
                Tok::CursorTo(r, c) => self.m.cursor = Some((*r, *c)),
                Tok::Gfx { control, payload } => {
                    let cmd = Cmd::parse(control).map_err(|f| {
                        Fail::new(
                            format!("{}/{}", f.sig, ctx.name()),
                            format!("event #{ev} ({}): {}", ctx.name(), f.msg),
                        )
                    })?;
                    self.gfx(&cmd, control, payload, ctx)?;
                }
            }
        }
        if let Some(p) = &self.m.pending {
            return Err(Fail::new(
                "chunk/unterminated",
                format!(
                    "event #{ev} ({}): output ends inside a chunked transmission of image {} (last chunk had m=1)",
                    ctx.name(),
                    p.id
                ),
            ));
        }
        Ok(())
    }

    fn gfx(&mut self, cmd: &Cmd, control: &[u8], payload: &[u8], ctx: Ctx) -> Result<(), Fail> {
        let ev = self.evno;
        let more = cmd.num(b'm').unwrap_or(0) == 1;
        // ---- continuation of a chunked transmission
        if self.m.pending.is_some() {
            ensure!(
                cmd.only(b"mq"),
                "chunk/continuation-has-extra-keys",
                "event #{ev}: chunk following m=1 carries keys other than m/q: {:?}",
                show(control)
            );
            self.chunk(payload, more, ctx)?;
            return Ok(());
        }
        if let Some(i) = cmd.num(b'i') {
            ensure!(
                (1..=MAX_ID).contains(&i),
                "id/image-id-zero",
                "event #{ev}: image id {i} is outside 1..=4294967295: {:?}",
                show(control)
            );
        }
        let action = cmd.ch(b'a').unwrap_or(b't');
        match action {
            b't' | b'T' => {
                let Some(id) = cmd.num(b'i') else {
                    return Err(Fail::new(
                        "transmit/no-image-id",
                        format!("event #{ev}: transmission without i=: {:?}", show(control)),
                    ));
                };
                ensure!(
                    cmd.num(b'f').unwrap_or(32) == 32,
                    "transmit/format-not-rgba",
                    "event #{ev}: pixel format f={:?} is not 32 (RGBA): {:?}",
                    cmd.num(b'f'),
                    show(control)
                );
                ensure!(
                    cmd.ch(b't').unwrap_or(b'd') == b'd'
                        && cmd.ch(b'o').is_none()
                        && cmd.num(b'S').is_none()
                        && cmd.num(b'O').is_none(),
                    "transmit/not-direct-uncompressed",
                    "event #{ev}: transmission medium/compression keys present, the payload is not plain pixel data: {:?}",
                    show(control)
                );
                let (Some(w), Some(h)) = (cmd.num(b's'), cmd.num(b'v')) else {
                    return Err(Fail::new(
                        "transmit/no-size",
                        format!("event #{ev}: raw pixel transmission without s= and v=: {:?}", show(control)),
                    ));
                };
                ensure!(
                    w >= 1 && h >= 1,
                    "transmit/zero-size",
                    "event #{ev}: transmission declares s={w}, v={h}: {:?}",
                    show(control)
                );
                self.m.pending = Some(Pending {
                    action,
                    id: id as u64,
                    pid: cmd.num(b'p').unwrap_or(0) as u64,
                    w,
                    h,
                    payload: Vec::new(),
                    chunks: 0,
                    last_len: 0,
                });
                self.chunk(payload, more, ctx)?;
            }
            b'p' => {
                ensure!(
                    payload.is_empty() && !more,
                    "put/has-payload",
                    "event #{ev}: a=p with payload or m=1: {:?}",
                    show(control)
                );
                let Some(id) = cmd.num(b'i') else {
                    return Err(Fail::new(
                        "put/no-image-id",
                        format!("event #{ev}: a=p without i=: {:?}", show(control)),
                    ));
                };
                self.put(id as u64, cmd.num(b'p').unwrap_or(0) as u64, ctx)?;
            }
            b'd' => {
                ensure!(
                    payload.is_empty() && !more,
                    "delete/has-payload",
                    "event #{ev}: a=d with payload or m=1: {:?}",
                    show(control)
                );
                let d = cmd.ch(b'd').unwrap_or(b'a');
                let free = d.is_ascii_uppercase();
                let victims: Vec<usize> = match d.to_ascii_lowercase() {
                    b'a' => self.m.placements.iter().map(|p| p.serial).collect(),
                    b'i' => {
                        let p = cmd.num(b'p').unwrap_or(0);
                        self.m.ev_delete_p.push(p);
                        match cmd.num(b'i') {
                            // no id: selects nothing
                            None => Vec::new(),
                            Some(id) => self
                                .m
                                .placements
                                .iter()
                                .filter(|pl| {
                                    pl.img == id as u64 && (p == 0 || pl.pid == p as u64)
                                })
                                .map(|pl| pl.serial)
                                .collect(),
                        }
                    }
                    other => {
                        return Err(Fail::new(
                            format!("unmodelled/delete-{}", other as char),
                            format!(
                                "event #{ev}: delete mode d={} is not covered by the reference model: {:?}",
                                d as char,
                                show(control)
                            ),
                        ));
                    }
                };
                self.m.placements.retain(|pl| !victims.contains(&pl.serial));
                self.m.ev_deleted.extend(victims);
                if free {
                    // upper-case variants also free image data no longer referenced
                    let referenced: BTreeSet<u64> =
                        self.m.placements.iter().map(|p| p.img).collect();
                    let candidates: Vec<u64> = match (d, cmd.num(b'i')) {
                        (b'I', Some(id)) => vec![id as u64],
                        (b'I', None) => Vec::new(),
                        _ => self.m.images.keys().copied().collect(),
                    };
                    for id in candidates {
                        if !referenced.contains(&id) {
                            self.drop_image(id);
                        }
                    }
                }
            }
            other => {
                return Err(Fail::new(
                    format!("unmodelled/action-{}", other as char),
                    format!(
                        "event #{ev}: action a={} is not covered by the reference model: {:?}",
                        other as char,
                        show(control)
                    ),
                ));
            }
        }
        Ok(())
    }

    /// A call whose writer failed.  `out` is what the writer had accepted before.  Nothing is
    /// checked here: the output is a torn prefix and the statement speaks about what a draw
    /// emits, not about what an aborted one managed to emit.  The prefix is only observed:
    ///  * a transmission that did not get to its last chunk was received by nobody as an image:
    ///    the terminal certainly still lacks that content (`cut_keys`);
    ///  * a transmission that is complete in the prefix may have arrived (`maybe`): the handler
    ///    may later place that image without sending it again, or send it again;
    ///  * placements / deletions in the prefix are not applied to the model (the checks on later
    ///    erases are about which placement a command addresses and do not depend on them).
    fn lost(&mut self, out: &[u8], ctx: Ctx) {
        let mut toks = Vec::new();
        let mut done = 0;
        let _ = scan(out, &mut toks, &mut done);
        let tail = &out[done..];
        let draw_key = match ctx {
            Ctx::Draw { key, .. } => Some(key),
            _ => None,
        };
        let header = |run: &Run, control: &[u8]| -> Option<(u8, u64, Option<usize>, bool)> {
            let cmd = Cmd::parse(control).ok()?;
            let id = cmd.num(b'i').filter(|i| (1..=MAX_ID).contains(i))? as u64;
            let key = draw_key.or_else(|| run.m.content_of_id.get(&id).copied());
            Some((cmd.ch(b'a').unwrap_or(b't'), id, key, cmd.num(b'm').unwrap_or(0) == 1))
        };
        let mut open: Option<(u64, Option<usize>)> = None;
        let mut complete: Vec<(u64, Option<usize>)> = Vec::new();
        for tok in &toks {
            let Tok::Gfx { control, .. } = tok else { continue };
            if let Some(tx) = open {
                // continuation chunk
                match Cmd::parse(control) {
                    Ok(cmd) if cmd.num(b'm').unwrap_or(0) == 1 => {}
                    Ok(_) => {
                        complete.push(tx);
                        open = None;
                    }
                    Err(_) => break,
                }
                continue;
            }
            match header(self, control) {
                Some((b't' | b'T', id, key, more)) => {
                    if let (Some(key), true) = (key, draw_key.is_some()) {
                        self.m.id_of.insert(key, id);
                        self.m.content_of_id.entry(id).or_insert(key);
                    }
                    if more {
                        open = Some((id, key));
                    } else {
                        complete.push((id, key));
                    }
                }
                Some((b'p', id, Some(key), _)) if draw_key.is_some() => {
                    self.m.id_of.insert(key, id);
                    self.m.content_of_id.entry(id).or_insert(key);
                }
                _ => {}
            }
        }
        // the writer failed inside a command: if its control data went out, it names the image
        if open.is_none() && tail.starts_with(b"\x1b_G") {
            if let Some(k) = tail.iter().position(|b| *b == b';') {
                if let Some((b't' | b'T', id, key, _)) = header(self, &tail[3..k]) {
                    open = Some((id, key));
                }
            }
        }
        for (id, key) in &complete {
            if let Some(key) = key {
                if !self.m.images.contains_key(id) {
                    self.m.maybe.insert(*id, *key);
                    self.label("fault:complete-transmission-into-the-failed-writer");
                }
            }
        }
        let maybe_keys: BTreeSet<usize> = self.m.maybe.values().copied().collect();
        let cut = |run: &mut Run, key: usize| {
            if !run.content_empty(key) && !run.m.live_tx.contains_key(&key) && !maybe_keys.contains(&key) {
                run.m.cut_keys.insert(key);
            }
        };
        if let Some((_, key)) = open {
            self.m.cut_seen = true;
            self.label("fault:transmission-cut");
            if let Some(key) = key {
                cut(self, key);
            }
        }
        if let Some(key) = draw_key {
            // a draw that was lost before or inside the transmission of a content the terminal
            // does not hold leaves the terminal without it
            cut(self, key);
        }
    }

    fn drop_image(&mut self, id: u64) {
        self.m.maybe.remove(&id);
        self.m.images.remove(&id);
        self.m.placements.retain(|p| p.img != id);
        self.m.live_tx.retain(|_, v| *v != id);
    }

    fn chunk(&mut self, payload: &[u8], more: bool, ctx: Ctx) -> Result<(), Fail> {
        let ev = self.evno;
        let p = self.m.pending.as_mut().unwrap();
        p.chunks += 1;
        p.last_len = payload.len();
        ensure!(
            payload.len() <= 4096,
            "chunk/longer-than-4096",
            "event #{ev}: chunk #{} of image {} carries {} payload bytes",
            p.chunks,
            p.id,
            payload.len()
        );
        ensure!(
            payload.len() % 4 == 0,
            "chunk/not-multiple-of-4",
            "event #{ev}: chunk #{} of image {} carries {} payload bytes (m={})",
            p.chunks,
            p.id,
            payload.len(),
            more as u8
        );
        p.payload.extend_from_slice(payload);
        if more {
            return Ok(());
        }
        // ---- transmission complete
        let p = self.m.pending.take().unwrap();
        let id = p.id;
        let data = base64_decode(&p.payload).map_err(|why| {
            Fail::new(
                "transmit/invalid-base64",
                format!(
                    "event #{ev}: payload of image {id} ({} chunks, {} bytes) is not RFC 4648 base64: {why}",
                    p.chunks,
                    p.payload.len()
                ),
            )
        })?;
        ensure!(
            data.len() as i64 == p.w * p.h * 4,
            "transmit/size-mismatch",
            "event #{ev}: image {id} declared s={} v={} (={} bytes) but the payload decodes to {} bytes in {} chunks",
            p.w,
            p.h,
            p.w * p.h * 4,
            data.len(),
            p.chunks
        );
        // which content must this be?
        let key = match ctx {
            Ctx::Draw { key, .. } => key,
            _ => match self.m.content_of_id.get(&id) {
                Some(k) => *k,
                None => {
                    return Err(Fail::new(
                        "transmit/unknown-image",
                        format!(
                            "event #{ev} ({}): transmission under id {id} which no drawn image has used",
                            ctx.name()
                        ),
                    ));
                }
            },
        };
        let (h, w, bytes) = &self.table[key];
        ensure!(
            p.w == *w as i64 && p.h == *h as i64,
            "transmit/wrong-dimensions",
            "event #{ev} ({}): image is {}x{} (w x h) but the transmission declares s={} v={}",
            ctx.name(),
            w,
            h,
            p.w,
            p.h
        );
        if data != *bytes {
            let at = data.iter().zip(bytes.iter()).position(|(a, b)| a != b).unwrap_or(0);
            return Err(Fail::new(
                "transmit/wrong-pixels",
                format!(
                    "event #{ev} ({}): decoded payload of the {}x{} image differs from its row-major RGBA pixels at byte {} (pixel {}, channel {}): got {:#04x}, want {:#04x}",
                    ctx.name(),
                    w,
                    h,
                    at,
                    at / 4,
                    at % 4,
                    data[at],
                    bytes[at]
                ),
            ));
        }
        // transmit at most once
        if let Some(prev) = self.m.live_tx.get(&key) {
            return Err(Fail::new(
                "transmit/repeated",
                format!(
                    "event #{ev} ({}): pixel data of the {}x{} content transmitted again under id {id} although it is held by the terminal under id {prev} and no error response invalidated it",
                    ctx.name(),
                    w,
                    h
                ),
            ));
        }
        // terminal: an existing image with this id is replaced together with its placements
        if self.m.images.contains_key(&id) {
            self.drop_image(id);
        }
        self.m.images.insert(id, key);
        self.m.live_tx.insert(key, id);
        self.m.content_of_id.insert(id, key);
        self.m.id_of.insert(key, id);
        self.m.ev_transmits += 1;
        self.m.maybe.remove(&id);
        let was_cut = self.m.cut_keys.remove(&key);
        if self.m.cut_seen {
            // a complete, exact transmission although an earlier one was torn by its writer
            self.label(if was_cut {
                "fault:transmission-after-a-cut-one/same-content"
            } else {
                "fault:transmission-after-a-cut-one/other-content"
            });
            self.nontrivial = true;
        }
        // labels
        let chunks = p.chunks;
        self.label(match chunks {
            1 => "tx:1-chunk",
            2 => "tx:2-chunks",
            _ => "tx:3+-chunks",
        });
        if p.last_len == 4096 {
            self.label("tx:last-chunk-exactly-4096");
        }
        self.label(match (p.w * p.h * 4) % 3 {
            0 => "tx:base64-pad0",
            1 => "tx:base64-pad2",
            _ => "tx:base64-pad1",
        });
        if matches!(ctx, Ctx::Resp { .. }) {
            self.label("resp:retransmit");
            self.nontrivial = true;
        }
        if p.action == b'T' {
            self.put(id, p.pid, ctx)?;
        }
        Ok(())
    }

    fn put(&mut self, id: u64, pid: u64, ctx: Ctx) -> Result<(), Fail> {
        let ev = self.evno;
        self.m.ev_puts += 1;
        if let Ctx::Draw { key, pos } = ctx {
            // learn the identifiers the handler uses (they are opaque to the oracle)
            self.m.id_of.insert(key, id);
            self.m.content_of_id.entry(id).or_insert(key);
            if pid != 0 {
                let v = self.m.puts_of.entry(id).or_default();
                if !v.contains(&pid) {
                    v.push(pid);
                }
                self.m.pos_of_put.insert((id, pid), pos);
            }
        }
        if !self.m.images.contains_key(&id) {
            if let Some(key) = self.m.maybe.remove(&id) {
                // every byte of this image's transmission was accepted by the writer of an
                // earlier call (which failed later on): the handler may rely on it
                self.m.images.insert(id, key);
                self.m.live_tx.insert(key, id);
                self.m.content_of_id.insert(id, key);
                self.m.cut_keys.remove(&key);
                self.label("fault:placement-relies-on-transmission-into-the-failed-writer");
            }
        }
        let Some(stored) = self.m.images.get(&id).copied() else {
            let about = match ctx {
                Ctx::Draw { key, .. } => Some(key),
                _ => self.m.content_of_id.get(&id).copied(),
            };
            if about.map(|k| self.m.cut_keys.contains(&k)).unwrap_or(false) {
                // "every placement refers to a transmitted image": a transmission that lost its
                // writer before the last chunk transmitted nothing
                return Err(Fail::new(
                    "put/untransmitted-image/transmission-cut-by-writer-error",
                    format!(
                        "event #{ev} ({}): a=p,i={id},p={pid} refers to an image whose only transmission on this handler was torn by a failing writer before its last chunk was written, and which was not transmitted again on a healthy writer",
                        ctx.name()
                    ),
                ));
            }
            let empty = match ctx {
                Ctx::Draw { key, .. } => self.content_empty(key),
                _ => self
                    .m
                    .content_of_id
                    .get(&id)
                    .map(|k| self.content_empty(*k))
                    .unwrap_or(false),
            };
            let class = if empty { "empty-image" } else { "nonempty-image" };
            // kitty answers ENOENT and creates nothing
            return self.raise(Fail::new(
                format!("put/untransmitted-image/{class}"),
                format!(
                    "event #{ev} ({}): a=p,i={id},p={pid} refers to an image whose pixel data the terminal does not hold (never transmitted on this handler, or invalidated by an error response)",
                    ctx.name()
                ),
            ));
        };
        let at = match ctx {
            Ctx::Draw { key, pos } => {
                // the one pair of contents known to collide in the 32-bit id space has a
                // signature of its own (known finding); anything else is reported plainly
                let sig = if known_colliding(&self.table[stored], &self.table[key]) {
                    "put/wrong-content/known-colliding-ids-b021f58e-a2ebf1ed"
                } else {
                    "put/wrong-content"
                };
                ensure!(
                    stored == key,
                    sig,
                    "event #{ev}: a=p,i={id} shows the {}x{} content transmitted earlier under this id, not the {}x{} image being drawn",
                    self.table[stored].1,
                    self.table[stored].0,
                    self.table[key].1,
                    self.table[key].0
                );
                Some(pos)
            }
            _ => {
                if let Ctx::Resp { about: Some(about) } = ctx {
                    // the terminal reported a failure for placement `about`: what the handler
                    // re-creates in answer must be that placement, not another one
                    ensure!(
                        pid == about,
                        "redraw/wrong-placement",
                        "event #{ev} (response): the terminal reported an error for placement (i={id},p={about}), created by drawing at {:?}; the handler answers by creating placement p={pid} with the cursor at {:?}",
                        self.m.pos_of_put.get(&(id, about)),
                        self.m.cursor
                    );
                }
                if let Some(orig) = self.m.pos_of_put.get(&(id, pid)) {
                    ensure!(
                        self.m.cursor == Some(*orig),
                        "redraw/wrong-position",
                        "event #{ev} ({}): placement (i={id},p={pid}) was created by drawing at {:?} but is re-created with the cursor at {:?}",
                        ctx.name(),
                        orig,
                        self.m.cursor
                    );
                }
                self.m.cursor
            }
        };
        self.m.serial += 1;
        let new = Placement {
            img: id,
            pid,
            content: stored,
            at,
            serial: self.m.serial,
        };
        match self
            .m
            .placements
            .iter_mut()
            .find(|p| pid != 0 && p.img == id && p.pid == pid)
        {
            Some(slot) => *slot = new,
            None => self.m.placements.push(new),
        }
        if matches!(ctx, Ctx::Resp { .. }) {
            self.label("resp:redraw");
        }
        Ok(())
    }
}

/// the one pair of 1x1 contents whose 64-bit content hashes reduce to the same kitty image id
fn known_colliding(a: &(usize, usize, Vec<u8>), b: &(usize, usize, Vec<u8>)) -> bool {
    let one = |e: &(usize, usize, Vec<u8>), px: [u8; 4]| e.0 == 1 && e.1 == 1 && e.2 == px;
    (one(a, COLLIDING_PIXELS.0) && one(b, COLLIDING_PIXELS.1)) || (one(a, COLLIDING_PIXELS.1) && one(b, COLLIDING_PIXELS.0))
}

fn pos_label(p: (usize, usize)) -> &'static str {
    match p {
        (0, 0) => "pos:origin",
        (0, _) => "pos:row0",
        (_, 0) => "pos:col0",
        (r, c) if r == 65535 || c == 65535 => "pos:65535",
        _ => "pos:inner",
    }
}

pub fn check_case(case: &Case) -> Outcome {
    ensure!(
        !case.contents.is_empty() && !case.imgs.is_empty() && !case.poss.is_empty(),
        "harness/bad-case",
        "empty pools"
    );
    // ---- contents, deduplicated by (h, w, pixels)
    let mut table: Vec<(usize, usize, Vec<u8>)> = Vec::new();
    let mut key_of_content = Vec::new();
    for c in &case.contents {
        let entry = (c.h, c.w, c.bytes());
        let key = match table.iter().position(|e| *e == entry) {
            Some(k) => k,
            None => {
                table.push(entry);
                table.len() - 1
            }
        };
        key_of_content.push(key);
    }
    let mut handler = if case.quiet {
        KittyImageHandler::new().quiet()
    } else {
        KittyImageHandler::new()
    };
    let mut run = Run {
        table,
        m: Model::default(),
        labels: BTreeSet::new(),
        deferred: None,
        nontrivial: false,
        evno: 0,
    };
    // ---- images
    let mut images = Vec::new();
    let mut img_key = Vec::new();
    let mut shared: Vec<Option<Image>> = vec![None; case.imgs.len()];
    let mut windows = false;
    if case.shared_backing {
        // regions stacked vertically in one picture, each with its own padding
        let mut regions: Vec<(usize, usize, usize, &Content)> = Vec::new();
        let (mut rows, mut width) = (0usize, 1usize);
        let wmax = case
            .imgs
            .iter()
            .map(|spec| &case.contents[spec.content.min(case.contents.len() - 1)])
            .filter(|c| !c.is_empty())
            .map(|c| c.w)
            .max()
            .unwrap_or(0);
        for (i, spec) in case.imgs.iter().enumerate() {
            let c = &case.contents[spec.content.min(case.contents.len() - 1)];
            if c.is_empty() {
                continue;
            }
            let (top, left) = match spec.build {
                Build::Crop { top, left, .. } | Build::View { top, left, .. } => (top, left),
                _ => (1, i),
            };
            if case.full_width_windows {
                if c.w != wmax {
                    continue;
                }
                regions.push((i, rows + top, 0, c));
                rows += top + c.h;
                width = wmax;
                continue;
            }
            regions.push((i, rows + top, left, c));
            rows += top + c.h;
            width = width.max(left + c.w + 1);
        }
        let huge = case.huge_backing && !case.late_windows && regions.len() >= 2;
        if huge {
            let (bh, bw) = ((rows + 1).max(2048), width.max(12288));
            let backing = guard_val(|| {
                let mut data = vec![garbage(7); bh * bw + 1];
                for (_, r0, left, c) in &regions {
                    for r in 0..c.h {
                        for col in 0..c.w {
                            data[(r0 + r) * bw + left + col] = rgba(c.px(r * c.w + col));
                        }
                    }
                }
                Image::from(SurfaceOwned::from_vec(Size { height: bh, width: bw }, data))
            })?;
            for (i, r0, left, c) in &regions {
                shared[*i] = Some(guard_val(|| backing.crop(*r0..r0 + c.h, *left..left + c.w))?);
            }
            windows = true;
            run.label("img:sprites-of-a-96MiB-atlas");
        } else if regions.len() >= 2 {
            let backing = guard_val(|| {
                Image::from(SurfaceOwned::new_with(
                    Size {
                        height: rows + 1,
                        width,
                    },
                    |p| {
                        for (_, r0, left, c) in &regions {
                            if p.row >= *r0 && p.row < r0 + c.h && p.col >= *left && p.col < left + c.w {
                                return rgba(c.px((p.row - r0) * c.w + (p.col - left)));
                            }
                        }
                        garbage(p.row * 31 + p.col)
                    },
                ))
            })?;
            if case.late_windows {
                // the whole picture is a content of its own, drawn before any window exists
                let bytes: Vec<u8> = backing.iter().flat_map(|p| p.to_rgba()).collect();
                run.table.push((rows + 1, width, bytes));
                let key = run.table.len() - 1;
                let pos = case.poss[0];
                let mut out: Vec<u8> = Vec::new();
                guard_val(|| handler.draw(&mut out, &backing, Position { row: pos.0, col: pos.1 }))?
                    .map_err(|e| Fail::new("draw/error", format!("drawing the backing picture returned {e:?}")))?;
                run.exec(&out, Ctx::Draw { key, pos })?;
                run.label("img:windows-cropped-after-the-picture-was-drawn");
            }
            for (i, r0, left, c) in &regions {
                shared[*i] = Some(guard_val(|| backing.crop(*r0..r0 + c.h, *left..left + c.w))?);
            }
            windows = true;
            if case.full_width_windows {
                run.label("img:full-width-windows");
            }
        }
    }
    for (i, spec) in case.imgs.iter().enumerate() {
        let ci = spec.content.min(case.contents.len() - 1);
        let c = &case.contents[ci];
        let img = match shared[i].take() {
            Some(img) => img,
            None => guard_val(|| build_image(c, &spec.build))?,
        };
        // precondition of the oracle (not part of C11): the view shows the intended pixels
        let seen: Vec<u8> = img.iter().flat_map(|p| p.to_rgba()).collect();
        let dims_ok = c.is_empty() || (img.height() == c.h && img.width() == c.w);
        ensure!(
            dims_ok && seen == run.table[key_of_content[ci]].2,
            "precondition/image-view-mismatch",
            "image built as {:?} from a {}x{} content iterates {} bytes with size {:?}",
            spec.build,
            c.w,
            c.h,
            seen.len(),
            img.size()
        );
        images.push(img);
        img_key.push(key_of_content[ci]);
    }

    run.label(if case.quiet { "handler:quiet" } else { "handler:plain" });
    if windows {
        run.label("img:windows-into-one-backing-image");
    }
    {
        // two different contents with the same bytes (different shape) drawn on one handler
        let mut by_bytes: BTreeMap<&[u8], BTreeSet<usize>> = BTreeMap::new();
        for ev in &case.evs {
            if let Ev::Draw { img, .. } = ev.peel().0 {
                let k = img_key[(*img).min(images.len() - 1)];
                if !run.table[k].2.is_empty() {
                    by_bytes.entry(&run.table[k].2).or_default().insert(k);
                }
            }
        }
        if by_bytes.values().any(|s| s.len() > 1) {
            run.labels.insert("img:same-bytes-different-shape".into());
        }
    }
    // arcs that already drew a content (for the label cache-hit:other-arc)
    let mut drawn_by: BTreeMap<usize, BTreeSet<usize>> = BTreeMap::new();

    for (evno, ev) in case.evs.iter().enumerate() {
        run.evno = evno;
        let (ev, fault) = ev.peel();
        let mut sink = Sink::new(fault);
        match ev {
            Ev::Failing { .. } => unreachable!(),
            Ev::Draw { img, pos } => {
                let ii = (*img).min(images.len() - 1);
                let pos = case.poss[(*pos).min(case.poss.len() - 1)];
                ensure!(pos.0 < 65536 && pos.1 < 65536, "harness/bad-case", "position out of domain");
                let key = img_key[ii];
                let image = &images[ii];
                let was_live = run.m.live_tx.contains_key(&key);
                let res = guard_val(|| {
                    handler.draw(
                        &mut sink,
                        image,
                        Position {
                            row: pos.0,
                            col: pos.1,
                        },
                    )
                })?;
                if sink.failed {
                    run.lost(&sink.data, Ctx::Draw { key, pos });
                    run.label("fault:draw-writer-failed");
                    continue;
                }
                res.map_err(|e| Fail::new("draw/error", format!("event #{evno}: draw returned {e:?}")))?;
                let out = std::mem::take(&mut sink.data);
                run.exec(&out, Ctx::Draw { key, pos })?;
                let empty = run.content_empty(key);
                ensure!(
                    empty || run.m.ev_puts >= 1,
                    "draw/no-placement",
                    "event #{evno}: drawing a {}x{} image at {:?} emitted no placement command: {}",
                    run.table[key].1,
                    run.table[key].0,
                    pos,
                    show(&out)
                );
                run.label("ev:draw");
                run.label(pos_label(pos));
                if empty {
                    run.label("img:empty");
                } else {
                    if was_live && run.m.ev_transmits == 0 {
                        run.nontrivial = true;
                        let others = drawn_by
                            .get(&key)
                            .map(|s| s.iter().any(|i| *i != ii))
                            .unwrap_or(false);
                        run.label(if others {
                            "cache-hit:other-arc-or-stride"
                        } else {
                            "cache-hit:same-image"
                        });
                    }
                    if run.m.ev_transmits > 0 && drawn_by.contains_key(&key) {
                        // transmitted again: only possible after an error response
                        run.label("draw:retransmit-after-error");
                        run.nontrivial = true;
                    }
                    if run.table[key].2.len() == 4 {
                        run.label("img:1x1");
                    }
                    match case.imgs[ii].build {
                        Build::Owned | Build::New => run.label("img:contiguous"),
                        Build::Crop { .. } | Build::View { .. } => run.label("img:cropped"),
                        Build::Parts { .. } | Build::Transposed => run.label("img:strided"),
                    }
                }
                drawn_by.entry(key).or_default().insert(ii);
            }
            Ev::Erase { img, pos } => {
                let ii = (*img).min(images.len() - 1);
                let key = img_key[ii];
                let pos = pos.map(|p| case.poss[p.min(case.poss.len() - 1)]);
                let before: Vec<Placement> = run.m.placements.clone();
                let image = &images[ii];
                let res = guard_val(|| {
                    handler.erase(
                        &mut sink,
                        image,
                        pos.map(|p| Position { row: p.0, col: p.1 }),
                    )
                })?;
                if sink.failed {
                    run.lost(&sink.data, Ctx::Erase);
                    run.label("fault:erase-writer-failed");
                    continue;
                }
                res.map_err(|e| Fail::new("erase/error", format!("event #{evno}: erase returned {e:?}")))?;
                let out = std::mem::take(&mut sink.data);
                run.exec(&out, Ctx::Erase)?;
                match pos {
                    None => run.label("ev:erase-all"),
                    Some(pos) => {
                        run.label("ev:erase-at");
                        // the placement(s) created by drawing this content at this cell
                        let target: BTreeSet<usize> = before
                            .iter()
                            .filter(|p| p.content == key && p.at == Some(pos))
                            .map(|p| p.serial)
                            .collect();
                        let deleted: BTreeSet<usize> = run
                            .m
                            .ev_deleted
                            .iter()
                            .copied()
                            .filter(|s| before.iter().any(|p| p.serial == *s))
                            .collect();
                        let describe = |set: &BTreeSet<usize>| -> Vec<String> {
                            before
                                .iter()
                                .filter(|p| set.contains(&p.serial))
                                .map(|p| format!("(i={},p={},at={:?})", p.img, p.pid, p.at))
                                .collect()
                        };
                        let siblings = before
                            .iter()
                            .filter(|p| p.content == key && !target.contains(&p.serial))
                            .count();
                        if !deleted.is_subset(&target) {
                            let extra: BTreeSet<usize> =
                                deleted.difference(&target).copied().collect();
                            let p0 = run.m.ev_delete_p.iter().all(|p| *p == 0);
                            let foreign = before
                                .iter()
                                .filter(|p| extra.contains(&p.serial))
                                .all(|p| p.content != key);
                            let colliding = foreign
                                && before
                                    .iter()
                                    .filter(|p| extra.contains(&p.serial))
                                    .all(|p| known_colliding(&run.table[p.content], &run.table[key]));
                            let class = if colliding {
                                // the id of this image is also the id of another content: the
                                // one pair known to collide (known finding)
                                "id-collision-b021f58e-a2ebf1ed"
                            } else if foreign {
                                "foreign-content"
                            } else if pos == (0, 0) && p0 {
                                "origin-p0"
                            } else {
                                "other"
                            };
                            run.raise(Fail::new(
                                format!("erase/deletes-other-placements/{class}"),
                                format!(
                                    "event #{evno}: erase at {:?} emitted {} which (p=0/absent means every placement of the image) also deletes {:?}; the placement drawn there is {:?}",
                                    pos,
                                    show(&out),
                                    describe(&extra),
                                    describe(&target)
                                ),
                            ))?;
                        }
                        if !target.is_subset(&deleted) {
                            let missed: BTreeSet<usize> =
                                target.difference(&deleted).copied().collect();
                            return Err(Fail::new(
                                "erase/misses-placement",
                                format!(
                                    "event #{evno}: erase at {:?} emitted {} which does not delete the placement drawn there {:?}",
                                    pos,
                                    show(&out),
                                    describe(&missed)
                                ),
                            ));
                        }
                        if target.is_empty() {
                            run.label("erase:no-target");
                        } else if siblings > 0 {
                            run.label("erase:target-with-sibling-placements");
                            run.nontrivial = true;
                        } else {
                            run.label("erase:target-only");
                        }
                    }
                }
            }
            Ev::Resp { .. } | Ev::RespRaw { .. } => {
                let (id, placement, error) = match ev {
                    Ev::Resp { img, place, error } => {
                        let ii = (*img).min(images.len() - 1);
                        let key = img_key[ii];
                        let id = run.m.id_of.get(&key).copied().unwrap_or(4242 + ii as u64);
                        let placement = match place {
                            Place::None => None,
                            Place::Raw(p) => Some(*p),
                            Place::Known(n) => run
                                .m
                                .puts_of
                                .get(&id)
                                .filter(|v| !v.is_empty())
                                .map(|v| v[(*n).min(v.len() - 1)]),
                        };
                        (id, placement, *error)
                    }
                    Ev::RespRaw {
                        id,
                        placement,
                        error,
                    } => (*id, *placement, *error),
                    _ => unreachable!(),
                };
                let known = run.m.content_of_id.contains_key(&id);
                if error {
                    // the terminal does not hold (any more) the data of this id
                    run.drop_image(id);
                }
                let event = TerminalEvent::KittyImage {
                    id,
                    placement,
                    error: error.then(|| "ENOENT:Put command refers to non-existent image".to_string()),
                };
                let res = guard_val(|| handler.handle(&mut sink, &event))?;
                let about = placement.filter(|p| run.m.pos_of_put.contains_key(&(id, *p)));
                if sink.failed {
                    run.lost(&sink.data, Ctx::Resp { about });
                    run.label("fault:response-writer-failed");
                    continue;
                }
                res.map_err(|e| Fail::new("handle/error", format!("event #{evno}: handle returned {e:?}")))?;
                let out = std::mem::take(&mut sink.data);
                run.exec(&out, Ctx::Resp { about })?;
                run.label(match (error, known) {
                    (true, true) => "ev:resp-error-known-id",
                    (true, false) => "ev:resp-error-unknown-id",
                    (false, _) => "ev:resp-ok",
                });
                if error && known {
                    run.nontrivial = true;
                }
            }
        }
        if fault.is_some() {
            // the output fitted into the limited writer: an ordinary call
            run.label("fault:writer-limit-not-reached");
        }
    }
    if let Some(f) = run.deferred {
        return Err(f);
    }
    let mut pass = Pass::new(run.nontrivial);
    for l in run.labels {
        pass = pass.label(l);
    }
    Ok(pass)
}

// ---------------------------------------------------------------------------------------
// generator

fn pix_strategy() -> BoxedStrategy<Pix> {
    prop_oneof![
        1 => any::<[u8; 4]>().prop_map(Pix::Solid),
        2 => proptest::collection::vec(any::<[u8; 4]>(), 1..=8).prop_map(Pix::Explicit),
        1 => Just(Pix::Explicit(vec![[0, 0, 0, 0], [255, 255, 255, 255]])),
        1 => any::<u8>().prop_map(Pix::Ramp),
        3 => any::<u64>().prop_map(Pix::Noise),
    ]
    .boxed()
}

fn dims_strategy() -> BoxedStrategy<(usize, usize)> {
    // base64 length = 4*ceil(4*w*h/3): 768 px <-> 4096, 1536 px <-> 8192, 2304 px <-> 12288
    let boundary: Vec<(usize, usize)> = vec![
        (1, 1),
        (1, 2),
        (2, 1),
        (1, 3),
        (24, 32),
        (32, 24),
        (1, 767),
        (1, 768),
        (768, 1),
        (1, 769),
        (769, 1),
        (16, 48),
        (3, 257),
        (32, 48),
        (48, 32),
        (1, 1535),
        (1, 1536),
        (1537, 1),
        (48, 48),
        (1, 2305),
        (40, 40),
    ];
    prop_oneof![
        3 => (1usize..=8, 1usize..=8),
        3 => (1usize..=48, 1usize..=48),
        3 => proptest::sample::select(boundary),
        1 => prop_oneof![
            (Just(0usize), 0usize..=5),
            (0usize..=5, Just(0usize)),
        ],
    ]
    .boxed()
}

fn content_strategy() -> BoxedStrategy<Content> {
    (dims_strategy(), pix_strategy())
        .prop_map(|((h, w), pix)| Content { h, w, pix })
        .boxed()
}

fn build_strategy() -> BoxedStrategy<Build> {
    prop_oneof![
        2 => Just(Build::Owned),
        1 => Just(Build::New),
        2 => (0usize..=3, 0usize..=3, 0usize..=3, 0usize..=3)
            .prop_map(|(top, left, bottom, right)| Build::Crop { top, left, bottom, right }),
        1 => (0usize..=3, 0usize..=3, 0usize..=3, 0usize..=3)
            .prop_map(|(top, left, bottom, right)| Build::View { top, left, bottom, right }),
        2 => (0usize..=5, 1usize..=3, 0usize..=3, any::<bool>())
            .prop_map(|(offset, stride, gap, col_major)| Build::Parts { offset, stride, gap, col_major }),
        1 => Just(Build::Transposed),
    ]
    .boxed()
}

fn pos_strategy() -> BoxedStrategy<(usize, usize)> {
    prop_oneof![
        3 => Just((0usize, 0usize)),
        1 => (Just(0usize), 1usize..=200),
        1 => (1usize..=200, Just(0usize)),
        1 => Just((65535usize, 65535usize)),
        1 => prop_oneof![(Just(65535usize), 0usize..65536), (0usize..65536, Just(65535usize))],
        4 => (1usize..=60, 1usize..=200),
        2 => (0usize..65536, 0usize..65536),
    ]
    .boxed()
}

fn ev_strategy(n_img: usize, n_pos: usize) -> BoxedStrategy<Ev> {
    prop_oneof![
        6 => (0..n_img, 0..n_pos).prop_map(|(img, pos)| Ev::Draw { img, pos }),
        3 => (0..n_img, 0..n_pos).prop_map(|(img, pos)| Ev::Erase { img, pos: Some(pos) }),
        1 => (0..n_img).prop_map(|img| Ev::Erase { img, pos: None }),
        3 => (
            0..n_img,
            prop_oneof![
                1 => Just(Place::None),
                4 => (0usize..3).prop_map(Place::Known),
                1 => (0u64..=4_294_967_295).prop_map(Place::Raw),
            ],
            prop_oneof![3 => Just(true), 1 => Just(false)],
        )
            .prop_map(|(img, place, error)| Ev::Resp { img, place, error }),
        1 => (
            prop_oneof![0u64..16, any::<u64>()],
            proptest::option::of(0u64..=4_294_967_295),
            any::<bool>(),
        )
            .prop_map(|(id, placement, error)| Ev::RespRaw { id, placement, error }),
    ]
    .boxed()
}

/// writer fault of one event: (bytes accepted before the writer fails, kind of failure).
/// A transmission is 40-odd bytes of control data + up to 4096 payload bytes per chunk, the
/// other commands are 20-50 bytes: the limits fall before the first byte, inside the control
/// data, inside the first / a later chunk, in the placement command behind the last chunk.
fn fault_strategy() -> BoxedStrategy<Fault> {
    (
        prop_oneof![
            // absolute
            1 => (Just(0u8), Just(0usize)),
            2 => (Just(0u8), 1usize..64),
            3 => (Just(0u8), 64usize..4200),
            2 => (Just(0u8), 4200usize..13000),
            // behind the k-th command of the call (= chunk of a transmission, mostly): right
            // at the boundary, inside the control data of the next command, inside its payload
            3 => (1u8..=3, prop_oneof![2 => Just(0usize), 3 => 1usize..48, 1 => 48usize..4200]),
        ],
        0u8..4,
    )
        .prop_map(|((after_st, room), kind)| Fault { after_st, room, kind })
        .boxed()
}

impl Property for C11 {
    type Case = Case;

    fn fuzz(&self) -> Option<FuzzSpec> {
        // entropy-driven target: libFuzzer's bytes replace the generator's random numbers
        Some(FuzzSpec { target: "gen", jobs: 8, runs: 80_000, max_len: 2048, seeds: 64 })
    }

    fn id(&self) -> &'static str {
        "C11"
    }

    fn strategy(&self, _tier: Tier) -> BoxedStrategy<Case> {
        (1usize..=3, 1usize..=4, 1usize..=3)
            .prop_flat_map(|(n_content, n_img, n_pos)| {
                (
                    any::<bool>(),
                    proptest::collection::vec(content_strategy(), n_content),
                    proptest::collection::vec(
                        (0..n_content, build_strategy())
                            .prop_map(|(content, build)| ImgSpec { content, build }),
                        n_img,
                    ),
                    proptest::collection::vec(pos_strategy(), n_pos),
                    proptest::collection::vec(ev_strategy(n_img, n_pos), 1..=15),
                    0u8..48,
                    proptest::bool::weighted(0.3),
                    any::<bool>(),
                    proptest::bool::weighted(0.4),
                    // histories with failing writers: 30% of the cases, there every event
                    // with probability 1/4
                    proptest::option::weighted(
                        0.3,
                        proptest::collection::vec(proptest::option::weighted(0.25, fault_strategy()), 15),
                    ),
                )
            })
            .prop_map(|(quiet, mut contents, imgs, poss, evs, tweak, shared_backing, late_windows, full_width, faults)| {
                let evs: Vec<Ev> = match faults {
                    None => evs,
                    Some(faults) => evs
                        .into_iter()
                        .zip(faults)
                        .map(|(ev, fault)| match fault {
                            Some(f) => Ev::Failing { ev: Box::new(ev), room: f.room, kind: f.kind, after_st: f.after_st },
                            None => ev,
                        })
                        .collect(),
                };
                // contents that random pixels cannot reach (found once by an offline search
                // over the 64-bit FNV content hash reduced mod 2^32-1)
                let last = contents.len() - 1;
                let one = |p: [u8; 4]| Content {
                    h: 1,
                    w: 1,
                    pix: Pix::Solid(p),
                };
                match tweak {
                    0 => contents[0] = one(ZERO_ID_PIXEL),
                    1 if last > 0 => {
                        contents[0] = one(COLLIDING_PIXELS.0);
                        contents[last] = one(COLLIDING_PIXELS.1);
                    }
                    5..=9 if last > 0 => {
                        // same shape, other pixels
                        contents[last] = Content {
                            h: contents[0].h,
                            w: contents[0].w,
                            pix: Pix::Noise(0x5eed_0000 + tweak as u64),
                        };
                    }
                    2..=4 if last > 0 => {
                        // same bytes, other shape
                        contents[last] = Content {
                            h: contents[0].w,
                            w: contents[0].h,
                            pix: contents[0].pix.clone(),
                        };
                    }
                    _ => {}
                }
                Case {
                    quiet,
                    contents,
                    imgs,
                    poss,
                    evs,
                    late_windows: shared_backing && late_windows,
                    full_width_windows: shared_backing && full_width,
                    // rare (about one case in 700; allocating the atlas costs ~40 ms)
                    huge_backing: shared_backing && !late_windows && quiet && tweak == 21,
                    shared_backing,
                }
            })
            .boxed()
    }

    fn check(&self, case: &Case) -> Outcome {
        // Valid placement ids are 1..=2^32-1 but there are 2^32 cells with coordinates below
        // 65536, so one cell cannot have an id of its own (the library saturates the far corner
        // (65535,65535) onto its neighbour).  Failures of histories that use that corner get
        // their own signature class so that the design limit can be listed as a known finding
        // without hiding the same failure anywhere else.
        let corner = case.poss.iter().any(|p| *p == (65535, 65535));
        let limited: Vec<String> = case
            .evs
            .iter()
            .enumerate()
            .filter_map(|(i, ev)| {
                ev.peel().1.map(|f| format!("#{i} after {} commands + {} bytes (kind {})", f.after_st, f.room, f.kind % 4))
            })
            .collect();
        let result = check_case(case).map_err(|f| {
            if limited.is_empty() {
                f
            } else {
                Fail::new(f.sig, format!("{} [events issued with a writer that fails: {}]", f.msg, limited.join(", ")))
            }
        });
        match result {
            Err(f)
                if corner
                    && (f.sig.starts_with("redraw/") || f.sig.starts_with("erase/"))
                    && !f.sig.contains("id-collision")
                    && (f.msg.contains("(65535, 65535)") || f.msg.contains("p=4294967295")) =>
            {
                Err(Fail::new(format!("{}/cell-65535x65535", f.sig), f.msg))
            }
            r => r,
        }
    }

    fn cases(&self, tier: Tier) -> u32 {
        tier.pick(40_000, 600_000)
    }

    fn rule(&self) -> String {
        "generated: 1-3 image contents (sizes 0x0..48x48 incl. empty, 1x1 and sizes whose base64 payload is 4096k-4, 4096k, 4096k+4 bytes for k=1,2,3; solid / explicit / 00-FF / byte-ramp / noise pixels; rarely also a 1x1 content that hashes to image id 0 / a pair of 1x1 contents with equal image id / the same bytes in another shape) realised as 1-4 Images (owned, Image::new, crop, view, strided + column-major from_parts, transposed; several Images may share a content with different Arcs; in 30% of the cases all non-empty images are windows cropped out of one backing Image object, in half of those only after that picture has itself been drawn on the handler, in 40% of them as full-width row ranges of the picture; contents of equal shape and different pixels are forced in 10% of the cases), 1-3 positions below 65536 biased to (0,0), row 0, column 0 and 65535, and a history of 1-15 events Draw / Erase(at|all) / response(OK|error, for a drawn image with a placement id the handler used, or arbitrary numbers) on one KittyImageHandler (plain or quiet); in 30% of the cases every event (draw, erase, response) is with probability 1/4 issued with a writer that accepts 0 / 1-63 / 64-4199 / 4200-12999 bytes, or its first 1-3 complete commands and 0 / 1-47 / 48-4199 bytes more (the last write possibly in part), and then fails every write with BrokenPipe / WouldBlock / Other / Ok(0), after which the history continues on a healthy writer. \
         Every output is scanned (APC, ESC 7/8, CUP), every graphics command is parsed and executed on a kitty reference model; checked: key syntax, id range, chunk length <=4096 and multiple of 4, m flags, continuation chunks carry only m/q, RFC 4648 decode = w*h*4 bytes = row-major RGBA, s/v = image size, f=32, content transmitted at most once unless an error response invalidated its id, every a=p names an id whose data the terminal holds and whose data is the drawn image, draw of a non-empty image creates a placement, placements re-created in answer to an error response carry the placement id the response named and sit at the cell of the original draw, erase-at deletes exactly the placements made by drawing that content at that cell (p=0/absent = all placements of the image). \
         A call whose writer failed is not judged (result, emitted prefix); its accepted bytes are only observed: a transmission that did not reach its last chunk transmitted nothing, so every later call is held to the same rules with the terminal not holding that image (a later transmission -- of this or any other image -- must again be one exact, well-formed payload of its own image; a later a=p for the torn image without a new complete transmission = put/untransmitted-image/transmission-cut-by-writer-error); a transmission that went completely into the failed writer may or may not have arrived: placing that image later and transmitting it again are both accepted. \
         non-trivial = a draw served from the transmit cache, or an erase-at with sibling placements of the same image, or an error response for an id the handler used, or a complete transmission after an earlier one was torn by a failing writer".into()
    }

    fn assumptions(&self) -> Vec<String> {
        vec![
            "kitty semantics used by the model: a=p with p=0 or no p creates a new anonymous placement, with p>0 it replaces the placement (i,p); a=d,d=i,i=N deletes all placements of image N, with p=M>0 only placement (N,M), p=0 is the same as no p; d=I/A additionally free image data that has no placements left; transmitting under an existing id replaces the image and removes its placements; a=p for an id without data fails (ENOENT) and creates nothing".into(),
            "an error response for an id means the terminal no longer holds data or placements for that id; only then may the same content be transmitted again".into(),
            "draw(img, pos) is called with the cursor at pos (documented contract of ImageHandler::draw), so the placement it creates is 'the placement at pos'".into(),
            "Erase(img, None) and OK responses are exercised but only the general command checks apply to them (the statement speaks about erasing at a position)".into(),
            "continuation chunks may carry only m and q (kitty specification); a repeated key takes the last value".into(),
            "failing writers: the bytes a writer accepted before it failed are treated as received by nobody as far as incomplete commands are concerned (no resynchronisation of a terminal left inside an APC string is modelled or demanded); complete commands in them may or may not have taken effect, the oracle accepts both; the result of the failed call and the bytes it emitted are not judged; io::ErrorKind::Interrupted is not generated (write_all retries it by contract); a failed handle() call leaves q=2 on later commands in the unchanged library, which the statement does not speak about (q is only range-checked)".into(),
            "the identifiers the handler uses are opaque to the oracle (learned from the output); contents whose 64-bit content hash reduces to image id 0, or to the id of another content, cannot be reached by random pixels: one such 1x1 content and one such pair (found by an offline search) are injected into about 4% of the cases".into(),
        ]
    }
}
