//! Pseudo-terminal plumbing for C16/C17: opens a pty pair, runs a scripted peer on the master
//! side (collects everything the terminal object sends, answers DA1 requests so that the
//! library's capability handshake and its dispose() sync complete immediately, can throttle
//! how fast it drains, can inject input bytes).

use std::os::fd::{AsRawFd, FromRawFd, OwnedFd, RawFd};
use std::sync::atomic::{AtomicBool, AtomicUsize, Ordering};
use std::sync::{Arc, Mutex};
use std::time::{Duration, Instant};

pub struct Pty {
    pub master: OwnedFd,
    pub slave_path: String,
    /// our own handle on the slave: keeps the pty alive and lets us read its termios
    pub slave: OwnedFd,
}

fn cvt(r: libc::c_int) -> std::io::Result<libc::c_int> {
    if r < 0 { Err(std::io::Error::last_os_error()) } else { Ok(r) }
}

impl Pty {
    pub fn open() -> std::io::Result<Self> {
        unsafe {
            let m = cvt(libc::posix_openpt(libc::O_RDWR | libc::O_NOCTTY | libc::O_CLOEXEC))?;
            let master = OwnedFd::from_raw_fd(m);
            cvt(libc::grantpt(m))?;
            cvt(libc::unlockpt(m))?;
            let mut buf = [0 as libc::c_char; 128];
            cvt(libc::ptsname_r(m, buf.as_mut_ptr(), buf.len()))?;
            let slave_path = std::ffi::CStr::from_ptr(buf.as_ptr()).to_string_lossy().to_string();
            let cpath = std::ffi::CString::new(slave_path.clone()).unwrap();
            let s = cvt(libc::open(cpath.as_ptr(), libc::O_RDWR | libc::O_NOCTTY | libc::O_CLOEXEC))?;
            let slave = OwnedFd::from_raw_fd(s);
            // a sane window size (cells and pixels)
            let ws = libc::winsize { ws_row: 24, ws_col: 80, ws_xpixel: 800, ws_ypixel: 480 };
            libc::ioctl(m, libc::TIOCSWINSZ, &ws);
            Ok(Self { master, slave_path, slave })
        }
    }

    pub fn termios(&self) -> std::io::Result<libc::termios> {
        unsafe {
            let mut t: libc::termios = std::mem::zeroed();
            cvt(libc::tcgetattr(self.slave.as_raw_fd(), &mut t))?;
            Ok(t)
        }
    }

    /// window size as the ioctl reports it, pixel extents given explicitly (0 = a terminal
    /// that does not fill them in)
    pub fn set_winsize_px(&self, rows: u16, cols: u16, xpixel: u16, ypixel: u16) {
        let ws = libc::winsize { ws_row: rows, ws_col: cols, ws_xpixel: xpixel, ws_ypixel: ypixel };
        unsafe {
            libc::ioctl(self.master.as_raw_fd(), libc::TIOCSWINSZ, &ws);
        }
    }

    pub fn set_winsize(&self, rows: u16, cols: u16) {
        let ws = libc::winsize { ws_row: rows, ws_col: cols, ws_xpixel: cols * 10, ws_ypixel: rows * 20 };
        unsafe {
            libc::ioctl(self.master.as_raw_fd(), libc::TIOCSWINSZ, &ws);
        }
    }
}

pub fn termios_eq(a: &libc::termios, b: &libc::termios) -> bool {
    a.c_iflag == b.c_iflag && a.c_oflag == b.c_oflag && a.c_cflag == b.c_cflag && a.c_lflag == b.c_lflag && a.c_cc == b.c_cc
}

pub fn termios_show(t: &libc::termios) -> String {
    format!("iflag={:#o} oflag={:#o} cflag={:#o} lflag={:#o} cc={:?}", t.c_iflag, t.c_oflag, t.c_cflag, t.c_lflag, &t.c_cc[..20])
}

/// Shared state of the scripted peer
pub struct PeerState {
    pub received: Mutex<Vec<u8>>,
    /// bytes per read (0 = as much as available)
    pub bite: AtomicUsize,
    /// pause after each read, microseconds
    pub pause_us: AtomicUsize,
    /// stop reading entirely (back-pressure) while true
    pub stalled: AtomicBool,
    pub stop: AtomicBool,
    /// answer `CSI c` with a DA1 report
    pub answer_da1: AtomicBool,
    pub da1_answered: AtomicUsize,
    /// answer `CSI 6 n` with this cursor position report (1-based row, col); 0 = do not answer
    pub cpr_row: AtomicUsize,
    pub cpr_col: AtomicUsize,
    /// wait this long before answering the requests found in one read (a slow terminal)
    pub reply_delay_ms: AtomicUsize,
    /// typed by the user right behind the next DA1 answer, in the same write (consumed)
    pub reply_suffix: Mutex<Vec<u8>>,
    /// typed by the user directly after the next DA1 answer, in a write of its own (consumed)
    pub reply_followup: Mutex<Vec<u8>>,
    /// number of such follow-up writes that have been completed
    pub followup_written: AtomicUsize,
    /// the master side got EIO/hangup
    pub hangup: AtomicBool,
    /// answer the size request `CSI 18 t CSI 14 t` with (rows, cols, pixel height, pixel width)
    pub size_reply: Mutex<Option<(u16, u16, u16, u16)>>,
    pub size_answered: AtomicUsize,
}

pub struct Peer {
    pub state: Arc<PeerState>,
    master: RawFd,
    handle: Option<std::thread::JoinHandle<()>>,
}

impl Peer {
    pub fn spawn(pty: &Pty) -> Self {
        let state = Arc::new(PeerState {
            received: Mutex::new(Vec::new()),
            bite: AtomicUsize::new(0),
            pause_us: AtomicUsize::new(0),
            stalled: AtomicBool::new(false),
            stop: AtomicBool::new(false),
            answer_da1: AtomicBool::new(true),
            da1_answered: AtomicUsize::new(0),
            cpr_row: AtomicUsize::new(0),
            cpr_col: AtomicUsize::new(0),
            reply_delay_ms: AtomicUsize::new(0),
            reply_suffix: Mutex::new(Vec::new()),
            reply_followup: Mutex::new(Vec::new()),
            followup_written: AtomicUsize::new(0),
            hangup: AtomicBool::new(false),
            size_reply: Mutex::new(None),
            size_answered: AtomicUsize::new(0),
        });
        let master = pty.master.as_raw_fd();
        let st = state.clone();
        let handle = std::thread::Builder::new()
            .name("pty-peer".into())
            .spawn(move || {
                let mut scan = 0usize; // how much of `received` was scanned for DA1 requests
                let mut scan_cpr = 0usize; // ... and for cursor position requests
                let mut scan_size = 0usize; // ... and for size requests
                let mut buf = vec![0u8; 1 << 16];
                while !st.stop.load(Ordering::Relaxed) {
                    if st.stalled.load(Ordering::Relaxed) {
                        std::thread::sleep(Duration::from_micros(200));
                        continue;
                    }
                    let mut pfd = libc::pollfd { fd: master, events: libc::POLLIN, revents: 0 };
                    let r = unsafe { libc::poll(&mut pfd, 1, 2) };
                    if r <= 0 {
                        continue;
                    }
                    if pfd.revents & libc::POLLIN == 0 {
                        if pfd.revents & (libc::POLLHUP | libc::POLLERR) != 0 {
                            st.hangup.store(true, Ordering::Relaxed);
                            std::thread::sleep(Duration::from_millis(1));
                        }
                        continue;
                    }
                    let bite = st.bite.load(Ordering::Relaxed);
                    let want = if bite == 0 { buf.len() } else { bite.min(buf.len()) };
                    let n = unsafe { libc::read(master, buf.as_mut_ptr() as *mut libc::c_void, want) };
                    if n <= 0 {
                        if n < 0 {
                            st.hangup.store(true, Ordering::Relaxed);
                            std::thread::sleep(Duration::from_millis(1));
                        }
                        continue;
                    }
                    let n = n as usize;
                    let mut answers = 0usize;
                    let mut cpr_answers = 0usize;
                    let mut size_answers = 0usize;
                    let size_reply = *st.size_reply.lock().unwrap();
                    {
                        let mut rec = st.received.lock().unwrap();
                        rec.extend_from_slice(&buf[..n]);
                        if st.answer_da1.load(Ordering::Relaxed) {
                            // DA1 request: ESC [ c
                            while scan + 3 <= rec.len() {
                                if &rec[scan..scan + 3] == b"\x1b[c" {
                                    answers += 1;
                                    scan += 3;
                                } else {
                                    scan += 1;
                                }
                            }
                        } else {
                            scan = rec.len().saturating_sub(2);
                        }
                        if st.cpr_row.load(Ordering::Relaxed) > 0 {
                            while scan_cpr + 4 <= rec.len() {
                                if &rec[scan_cpr..scan_cpr + 4] == b"\x1b[6n" {
                                    cpr_answers += 1;
                                    scan_cpr += 4;
                                } else {
                                    scan_cpr += 1;
                                }
                            }
                        } else {
                            scan_cpr = rec.len().saturating_sub(3);
                        }
                        const SIZE_REQ: &[u8] = b"\x1b[18t\x1b[14t";
                        if size_reply.is_some() {
                            while scan_size + SIZE_REQ.len() <= rec.len() {
                                if &rec[scan_size..scan_size + SIZE_REQ.len()] == SIZE_REQ {
                                    size_answers += 1;
                                    scan_size += SIZE_REQ.len();
                                } else {
                                    scan_size += 1;
                                }
                            }
                        } else {
                            scan_size = rec.len().saturating_sub(SIZE_REQ.len() - 1);
                        }
                    }
                    if answers + cpr_answers > 0 {
                        let delay = st.reply_delay_ms.load(Ordering::Relaxed);
                        if delay > 0 {
                            std::thread::sleep(Duration::from_millis(delay as u64));
                        }
                    }
                    if let Some((rows, cols, ph, pw)) = size_reply {
                        for _ in 0..size_answers {
                            let reply = format!("\x1b[8;{rows};{cols}t\x1b[4;{ph};{pw}t");
                            st.size_answered.fetch_add(1, Ordering::SeqCst);
                            unsafe {
                                libc::write(master, reply.as_ptr() as *const libc::c_void, reply.len());
                            }
                        }
                    }
                    for _ in 0..cpr_answers {
                        let reply = format!("\x1b[{};{}R", st.cpr_row.load(Ordering::Relaxed), st.cpr_col.load(Ordering::Relaxed));
                        unsafe {
                            libc::write(master, reply.as_ptr() as *const libc::c_void, reply.len());
                        }
                    }
                    for _ in 0..answers {
                        let mut reply = b"\x1b[?62;c".to_vec();
                        reply.append(&mut st.reply_suffix.lock().unwrap());
                        // counted before the reply is written: whoever has read the reply can
                        // rely on the count (and on `received`) being up to date
                        st.da1_answered.fetch_add(1, Ordering::SeqCst);
                        unsafe {
                            libc::write(master, reply.as_ptr() as *const libc::c_void, reply.len());
                        }
                        let followup = std::mem::take(&mut *st.reply_followup.lock().unwrap());
                        if !followup.is_empty() {
                            unsafe {
                                libc::write(master, followup.as_ptr() as *const libc::c_void, followup.len());
                            }
                            st.followup_written.fetch_add(1, Ordering::SeqCst);
                        }
                    }
                    let pause = st.pause_us.load(Ordering::Relaxed);
                    if pause > 0 {
                        std::thread::sleep(Duration::from_micros(pause as u64));
                    }
                }
            })
            .expect("spawn peer");
        Self { state, master, handle: Some(handle) }
    }

    /// type input into the terminal (master -> slave)
    pub fn send_input(&self, bytes: &[u8]) {
        unsafe {
            libc::write(self.master, bytes.as_ptr() as *const libc::c_void, bytes.len());
        }
    }

    pub fn received_len(&self) -> usize {
        self.state.received.lock().unwrap().len()
    }

    pub fn received(&self) -> Vec<u8> {
        self.state.received.lock().unwrap().clone()
    }

    /// wait until at least `n` bytes were received; false on timeout
    pub fn wait_received(&self, n: usize, timeout: Duration) -> bool {
        let deadline = Instant::now() + timeout;
        while self.received_len() < n {
            if Instant::now() > deadline {
                return false;
            }
            std::thread::sleep(Duration::from_micros(200));
        }
        true
    }

    pub fn free_run(&self) {
        self.state.bite.store(0, Ordering::Relaxed);
        self.state.pause_us.store(0, Ordering::Relaxed);
        self.state.stalled.store(false, Ordering::Relaxed);
    }
}

impl Drop for Peer {
    fn drop(&mut self) {
        self.state.stop.store(true, Ordering::Relaxed);
        if let Some(h) = self.handle.take() {
            let _ = h.join();
        }
    }
}
