//! A recording `Terminal`: stores every executed command; gives size/capabilities to the
//! renderer and to `ViewContext::new`.

use std::io::Write;
use std::time::Duration;
use surf_n_term::encoder::ColorDepth;
use surf_n_term::view::ViewContext;
use surf_n_term::{
    Error, Position, Size, Terminal, TerminalCaps, TerminalCommand, TerminalEvent, TerminalSize,
    TerminalWaker,
};

pub struct RecTerm {
    pub size: TerminalSize,
    pub caps: TerminalCaps,
    pub cmds: Vec<TerminalCommand>,
    pub written: Vec<u8>,
}

impl RecTerm {
    /// `cells` in cells, each cell `ppc` pixels
    pub fn new(cells: Size, ppc: Size, glyphs: bool) -> Self {
        Self {
            size: TerminalSize {
                cells,
                pixels: Size::new(cells.height * ppc.height, cells.width * ppc.width),
            },
            caps: TerminalCaps { depth: ColorDepth::TrueColor, glyphs, kitty_keyboard: false },
            cmds: Vec::new(),
            written: Vec::new(),
        }
    }

    /// a terminal that reports exactly `size`: `pixels` need not be a multiple of `cells`, and
    /// `pixels == 0x0` is the terminal that does not know its size in pixels (plain pty, ssh,
    /// tmux: no ioctl pixel size, no answer to the size request), for which
    /// `TerminalSize::pixels_per_cell()`, hence `ViewContext::new`, yields 0x0
    pub fn with_size(size: TerminalSize, glyphs: bool) -> Self {
        Self {
            size,
            caps: TerminalCaps { depth: ColorDepth::TrueColor, glyphs, kitty_keyboard: false },
            cmds: Vec::new(),
            written: Vec::new(),
        }
    }

    pub fn take(&mut self) -> Vec<TerminalCommand> {
        std::mem::take(&mut self.cmds)
    }

    pub fn ctx(&self) -> ViewContext {
        ViewContext::new(self).expect("mock terminal always has a size")
    }
}

impl Write for RecTerm {
    fn write(&mut self, buf: &[u8]) -> std::io::Result<usize> {
        self.written.extend_from_slice(buf);
        Ok(buf.len())
    }
    fn flush(&mut self) -> std::io::Result<()> {
        Ok(())
    }
}

impl Terminal for RecTerm {
    fn execute(&mut self, cmd: TerminalCommand) -> Result<(), Error> {
        self.cmds.push(cmd);
        Ok(())
    }
    fn waker(&self) -> TerminalWaker {
        TerminalWaker::new(|| Ok(()))
    }
    fn poll(&mut self, _timeout: Option<Duration>) -> Result<Option<TerminalEvent>, Error> {
        Ok(None)
    }
    fn dyn_ref(&mut self) -> &mut dyn Terminal {
        self
    }
    fn size(&self) -> Result<TerminalSize, Error> {
        Ok(self.size)
    }
    fn position(&mut self) -> Result<Position, Error> {
        Ok(Position::origin())
    }
    fn frames_pending(&self) -> usize {
        0
    }
    fn frames_drop(&mut self) {}
    fn capabilities(&self) -> &TerminalCaps {
        &self.caps
    }
}


/// `ViewCache` for JSON `ref` views whose entries CHANGE between calls: every `get` of a uid
/// returns the next of six structurally different views (a leaf, a container around a tagged
/// leaf, a two-child flex, a tag at the root, a dynamic view at the root, and -- `with_chains` only --
/// another reference).  A frame resolves a reference once, while laying it out, and must
/// render that very view; an application may update its cache at any other moment.
pub struct FlipCache {
    calls: std::sync::atomic::AtomicUsize,
    /// also hand out entries that are themselves references (resolved by a cache of leaves)
    chains: bool,
}

impl FlipCache {
    pub fn new() -> Self {
        Self { calls: std::sync::atomic::AtomicUsize::new(0), chains: false }
    }

    /// As `new`, and every sixth entry is a view that was itself deserialised from
    /// `{"type":"ref",…}` (a cache filled with deserialised documents): a finite chain
    /// reference -> reference -> text. Only for checks that run in a worker process.
    pub fn with_chains() -> Self {
        Self { calls: std::sync::atomic::AtomicUsize::new(0), chains: true }
    }
}

/// resolves every uid to a one-line text (the far end of a reference chain)
struct LeafCache;

impl surf_n_term::view::ViewCache for LeafCache {
    fn get(&self, _uid: i64) -> Option<surf_n_term::view::ArcView<'static>> {
        Some(std::sync::Arc::new(surf_n_term::view::Text::from("leaf")))
    }
}

impl surf_n_term::view::ViewCache for FlipCache {
    fn get(&self, uid: i64) -> Option<surf_n_term::view::ArcView<'static>> {
        use serde::de::DeserializeSeed;
        use surf_n_term::view::{Axis, Container, Dynamic, Flex, Tag, Text, ViewDeserializer};
        if uid < 0 {
            return None;
        }
        let n = self.calls.fetch_add(1, std::sync::atomic::Ordering::SeqCst);
        // the uid shifts the starting point, so that a document with a single reference can
        // meet every kind of entry
        Some(match (n % 6 + 2 * (uid as u64 % 3) as usize) % 6 {
            0 => std::sync::Arc::new(Text::from("ref")),
            1 => std::sync::Arc::new(Container::new(Tag::new(7u8, Text::from("boxed")))),
            2 => std::sync::Arc::new(Flex::new(Axis::Horizontal).add_child(Text::from("a")).add_child(Tag::new(9u8, Text::from("b")))),
            // entries whose ROOT keeps data in its layout node: a tag, a dynamic view
            3 => std::sync::Arc::new(Tag::new(11u8, Text::from("tagged"))),
            4 => std::sync::Arc::new(Dynamic::new(|_ctx, _ct| Text::from("dynamic"))),
            _ if self.chains => {
                let de = ViewDeserializer::new(None, Some(std::sync::Arc::new(LeafCache)));
                match de.deserialize(serde_json::json!({"type": "ref", "ref": uid})) {
                    Ok(view) => view,
                    Err(_) => std::sync::Arc::new(Text::from("ref")),
                }
            }
            _ => std::sync::Arc::new(Text::from("ref")),
        })
    }
}
