//! A recording `Terminal`: stores every executed command; gives size/capabilities to the
//! renderer and to `ViewContext::new`.

use std::io::Write;
use std::time::Duration;
use surf_n_term::encoder::ColorDepth;
use surf_n_term::view::ViewContext;
use surf_n_term::{
    Error, Position, Size, Terminal, TerminalCaps, TerminalCommand, TerminalEvent, TerminalSize,
    TerminalWaker,
};

pub struct RecTerm {
    pub size: TerminalSize,
    pub caps: TerminalCaps,
    pub cmds: Vec<TerminalCommand>,
    pub written: Vec<u8>,
}

impl RecTerm {
    /// `cells` in cells, each cell `ppc` pixels
    pub fn new(cells: Size, ppc: Size, glyphs: bool) -> Self {
        Self {
            size: TerminalSize {
                cells,
                pixels: Size::new(cells.height * ppc.height, cells.width * ppc.width),
            },
            caps: TerminalCaps { depth: ColorDepth::TrueColor, glyphs, kitty_keyboard: false },
            cmds: Vec::new(),
            written: Vec::new(),
        }
    }

    pub fn take(&mut self) -> Vec<TerminalCommand> {
        std::mem::take(&mut self.cmds)
    }

    pub fn ctx(&self) -> ViewContext {
        ViewContext::new(self).expect("mock terminal always has a size")
    }
}

impl Write for RecTerm {
    fn write(&mut self, buf: &[u8]) -> std::io::Result<usize> {
        self.written.extend_from_slice(buf);
        Ok(buf.len())
    }
    fn flush(&mut self) -> std::io::Result<()> {
        Ok(())
    }
}

impl Terminal for RecTerm {
    fn execute(&mut self, cmd: TerminalCommand) -> Result<(), Error> {
        self.cmds.push(cmd);
        Ok(())
    }
    fn waker(&self) -> TerminalWaker {
        TerminalWaker::new(|| Ok(()))
    }
    fn poll(&mut self, _timeout: Option<Duration>) -> Result<Option<TerminalEvent>, Error> {
        Ok(None)
    }
    fn dyn_ref(&mut self) -> &mut dyn Terminal {
        self
    }
    fn size(&self) -> Result<TerminalSize, Error> {
        Ok(self.size)
    }
    fn position(&mut self) -> Result<Position, Error> {
        Ok(Position::origin())
    }
    fn frames_pending(&self) -> usize {
        0
    }
    fn frames_drop(&mut self) {}
    fn capabilities(&self) -> &TerminalCaps {
        &self.caps
    }
}


/// `ViewCache` for JSON `ref` views whose entries CHANGE between calls: every `get` of a uid
/// returns the next of three structurally different views (a leaf, a container around a tagged
/// leaf, a two-child flex).  A frame resolves a reference once, while laying it out, and must
/// render that very view; an application may update its cache at any other moment.
pub struct FlipCache {
    calls: std::sync::atomic::AtomicUsize,
}

impl FlipCache {
    pub fn new() -> Self {
        Self { calls: std::sync::atomic::AtomicUsize::new(0) }
    }
}

impl surf_n_term::view::ViewCache for FlipCache {
    fn get(&self, uid: i64) -> Option<surf_n_term::view::ArcView<'static>> {
        use surf_n_term::view::{Axis, Container, Flex, Tag, Text};
        if uid < 0 {
            return None;
        }
        let n = self.calls.fetch_add(1, std::sync::atomic::Ordering::SeqCst);
        Some(match n % 3 {
            0 => std::sync::Arc::new(Text::from("ref")),
            1 => std::sync::Arc::new(Container::new(Tag::new(7u8, Text::from("boxed")))),
            _ => std::sync::Arc::new(Flex::new(Axis::Horizontal).add_child(Text::from("a")).add_child(Tag::new(9u8, Text::from("b")))),
        })
    }
}
