//! C10 — view layout honours constraints, never panics, and draws where it says it does.
//!
//! Generator: a serialisable description of a view tree (`Node`) from which the real library
//! views are built (every node wrapped in a transparent `Spy` that records the constraint it
//! received and the size it reported; leaves include `Probe`, a view of this harness that fills
//! the surface it is handed with its own letter), or the JSON form of a tree (`JNode`) that goes
//! through `ViewDeserializer`.  Each tree is laid out and rendered under 1..=3 constraints.
//!
//! Oracles (exactly the clauses of the property):
//!  1. `layout_new` and `render` return (Ok or Err), no panic, no unbounded recursion;
//!  2. rendering into a window of a larger sentinel-filled canvas leaves every cell outside
//!     the window untouched;
//!  3. text / flex / container / image / glyph / fill / surface views report a size inside the
//!     constraint *they* received (frame, scroll bar, tag, dynamic, option/either: not claimed);
//!  4. cells carrying a probe's letter lie inside the probe's rectangle as recorded by the layout
//!     tree (sum of positions from the root) clipped by all ancestors and the window; every such
//!     clipped-rectangle cell that no later flex sibling can repaint carries the letter; and
//!     `find_path` of every painted cell ends in a layout with exactly the probe's rectangle.

use crate::engine::*;
use crate::mockterm::RecTerm;
use proptest::prelude::*;
use serde::de::DeserializeSeed;
use serde::{Deserialize, Serialize};
use serde_json::{Value, json};
use std::collections::HashSet;
use std::sync::atomic::{AtomicBool, AtomicUsize, Ordering};
use std::sync::{Arc, Mutex, OnceLock};
use surf_n_term::render::CellKind;
use surf_n_term::view::{
    Align, Axis, BoxConstraint, Container, Dynamic, Either, Flex, FlexChild, FlexRef, Frame,
    Justify, Layout, Margins, ScrollBar, ScrollBarPosition, Tag, Text, Tree, TreeId, TreeMut, View,
    ViewContext, ViewDeserializer, ViewLayout, ViewLayoutStore, ViewMutLayout,
};
use surf_n_term::{
    Cell, CellWrite, Error, Face, FillRule, Glyph, Image, Path, Position, RGBA, Size, Surface,
    SurfaceMut, SurfaceOwned, TerminalSurface,
};

pub struct C10;

// ---------------------------------------------------------------------------------------
// case description

#[derive(Clone, Copy, Debug, PartialEq, Eq, Serialize, Deserialize)]
pub enum Al {
    Start,
    Center,
    End,
    Expand,
    Shrink,
    Offset(i32),
}

impl Al {
    fn lib(self) -> Align {
        match self {
            Al::Start => Align::Start,
            Al::Center => Align::Center,
            Al::End => Align::End,
            Al::Expand => Align::Expand,
            Al::Shrink => Align::Shrink,
            Al::Offset(n) => Align::Offset(n),
        }
    }
    fn json(self) -> Value {
        match self {
            Al::Start => json!("start"),
            Al::Center => json!("center"),
            Al::End => json!("end"),
            Al::Expand => json!("expand"),
            Al::Shrink => json!("shrink"),
            Al::Offset(n) => json!({ "offset": n }),
        }
    }
    fn name(self) -> &'static str {
        match self {
            Al::Start => "start",
            Al::Center => "center",
            Al::End => "end",
            Al::Expand => "expand",
            Al::Shrink => "shrink",
            Al::Offset(n) if n >= 0 => "offset+",
            Al::Offset(_) => "offset-",
        }
    }
}

#[derive(Clone, Copy, Debug, PartialEq, Eq, Serialize, Deserialize)]
pub enum J {
    Start,
    Center,
    End,
    SpaceBetween,
    SpaceAround,
    SpaceEvenly,
}

impl J {
    fn lib(self) -> Justify {
        match self {
            J::Start => Justify::Start,
            J::Center => Justify::Center,
            J::End => Justify::End,
            J::SpaceBetween => Justify::SpaceBetween,
            J::SpaceAround => Justify::SpaceAround,
            J::SpaceEvenly => Justify::SpaceEvenly,
        }
    }
    fn json(self) -> &'static str {
        match self {
            J::Start => "start",
            J::Center => "center",
            J::End => "end",
            J::SpaceBetween => "space-between",
            J::SpaceAround => "space-around",
            J::SpaceEvenly => "space-evenly",
        }
    }
}

#[derive(Clone, Copy, Debug, PartialEq, Eq, Serialize, Deserialize)]
pub enum TextKind {
    Text,
    Str,
    String,
}

#[derive(Clone, Debug, Serialize, Deserialize)]
pub struct Kid {
    pub flex: Option<f64>,
    pub face: Option<u8>,
    pub align: Al,
    pub node: Node,
}

#[derive(Clone, Debug, Serialize, Deserialize)]
pub enum Node {
    /// harness leaf: wants `h x w`, fills what it gets with its letter (letter = preorder index)
    Probe { h: usize, w: usize },
    Text { kind: TextKind, s: String, wraps: bool, face: Option<u8> },
    Fill(u8),
    Unit,
    /// `h x w` in pixels
    Image { h: usize, w: usize, ascii: bool },
    Glyph { h: usize, w: usize, fallback: String },
    /// `SurfaceView<Cell>` of an owned surface (`sub`: a strided sub-view of it)
    Surface { h: usize, w: usize, sub: bool },
    ScrollBar { vertical: bool, pos: u8, face: Option<u8> },
    Flex { vertical: bool, justify: J, via_ref: bool, kids: Vec<Kid> },
    Container {
        h: usize,
        w: usize,
        v: Al,
        hz: Al,
        /// left, right, top, bottom
        margins: [usize; 4],
        face: Option<u8>,
        child: Box<Node>,
    },
    Frame { bw: u8, br: u8, child: Box<Node> },
    Tag(Box<Node>),
    /// `same_type`: the closure returns `Box<dyn View>` (the same `V` for every Dynamic),
    /// otherwise a type that is distinct per nesting level
    Dynamic { same_type: bool, child: Box<Node> },
    Opt(Option<Box<Node>>),
    Either(bool, Box<Node>),
    Boxed(Box<Node>),
    Arced(Box<Node>),
}

#[derive(Clone, Debug, Serialize, Deserialize)]
pub enum JText {
    Str(String),
    List(Vec<JText>),
    Obj { face: Option<u8>, wraps: Option<bool>, text: Box<JText> },
    Glyph { h: usize, w: usize, fallback: String },
}

#[derive(Clone, Debug, Serialize, Deserialize)]
pub enum JKid {
    Plain(JNode),
    Ext { flex: Option<f64>, align: Option<Al>, face: Option<u8>, view: JNode },
}

#[derive(Clone, Debug, Serialize, Deserialize)]
pub enum JNode {
    Text(JText),
    Flex { vertical: Option<bool>, justify: Option<J>, children: Vec<JKid> },
    Container {
        size: Option<(usize, usize)>,
        margins: Option<[usize; 4]>,
        vertical: Option<Al>,
        horizontal: Option<Al>,
        face: Option<u8>,
        child: Box<JNode>,
    },
    Tag(u8, Box<JNode>),
    Color(u8),
    Glyph { h: usize, w: usize, fallback: String },
    Image { ascii: bool, h: usize, w: usize, channels: u8 },
    Trace(Box<JNode>),
    Ref(i64),
}

#[derive(Clone, Debug, Serialize, Deserialize)]
pub enum Src {
    Built(Node),
    Json(JNode),
}

#[derive(Clone, Copy, Debug, PartialEq, Eq, Serialize, Deserialize)]
pub struct Ct {
    pub min_h: usize,
    pub min_w: usize,
    pub max_h: usize,
    pub max_w: usize,
}

impl Ct {
    fn lib(self) -> BoxConstraint {
        BoxConstraint::new(Size::new(self.min_h, self.min_w), Size::new(self.max_h, self.max_w))
    }
    fn degenerate(self) -> bool {
        self.max_h <= 1 || self.max_w <= 1
    }
}

/// size of the surface handed to `render`
#[derive(Clone, Copy, Debug, PartialEq, Eq, Serialize, Deserialize)]
pub enum Win {
    /// `ct.max`
    Max,
    /// one less than `ct.max` in both directions
    Smaller,
    /// three more than `ct.max`
    Larger,
    /// size of the root layout (capped at 120)
    LayoutSize,
}

#[derive(Clone, Debug, Serialize, Deserialize)]
pub struct Case {
    pub src: Src,
    pub cts: Vec<Ct>,
    pub glyphs: bool,
    /// pixels per cell (height, width)
    pub ppc: (usize, usize),
    pub win: Win,
    /// the whole case (deserialisation, layout, render) runs while a `tracing` subscriber that
    /// formats every field of every event and span is this thread's default
    #[serde(default)]
    pub listen: bool,
}

// ---------------------------------------------------------------------------------------
// tables

const FACES: [&str; 4] = ["bg=#ff0000", "fg=#00ff00,bold", "bg=#0000ff/.5,fg=#ffffff", "underline"];
const COLORS: [&str; 4] = ["#ff0000", "#00ff0080", "#0000ff", "#00000000"];
const GLYPH_PATH: &str = "M1,1 h18 v18 h-18 Z";
const FRAME_NUM: [f64; 6] = [0.0, 0.1, 0.5, 1.0, 3.0, -1.0];
const SENTINEL: char = '#';

fn face(i: u8) -> Face {
    FACES[i as usize % FACES.len()].parse().expect("harness face table parses")
}

fn color(i: u8) -> RGBA {
    COLORS[i as usize % COLORS.len()].parse().expect("harness colour table parses")
}

fn scroll_pos(i: u8) -> ScrollBarPosition {
    match i % 10 {
        0 => ScrollBarPosition { offset: 0.0, visible: 0.0 },
        1 => ScrollBarPosition { offset: 0.0, visible: 1.0 },
        2 => ScrollBarPosition { offset: 1.0, visible: 1.0 },
        3 => ScrollBarPosition { offset: 0.5, visible: 0.3 },
        4 => ScrollBarPosition { offset: 2.0, visible: 0.5 },
        5 => ScrollBarPosition { offset: 0.2, visible: 3.0 },
        6 => ScrollBarPosition { offset: -1.0, visible: 0.5 },
        // NaN / NaN
        7 => ScrollBarPosition::from_counts(0, 0, 0),
        // inf / inf
        8 => ScrollBarPosition::from_counts(0, 1, 1),
        _ => ScrollBarPosition::from_counts(10, 3, 4),
    }
}

fn probe_char(idx: usize) -> char {
    (b'A' + (idx % 26) as u8) as char
}

fn probe_of_char(c: char) -> Option<usize> {
    c.is_ascii_uppercase().then(|| (c as u8 - b'A') as usize)
}

fn make_glyph(h: usize, w: usize, fallback: &str) -> Glyph {
    let path: Path = GLYPH_PATH.parse().expect("harness glyph path parses");
    Glyph::new(path, FillRule::default(), None, Size::new(h, w), fallback.to_string(), None)
}

fn make_image(h: usize, w: usize) -> Image {
    Image::from(SurfaceOwned::new_with(Size::new(h, w), |p| {
        RGBA::new((p.row * 40) as u8, (p.col * 40) as u8, 128, 255)
    }))
}

// ---------------------------------------------------------------------------------------
// observation log shared by spies and probes

#[derive(Clone, Copy, Debug, PartialEq, Eq)]
pub enum Kind {
    Probe,
    Text,
    Fill,
    Unit,
    Image,
    ImageAscii,
    Glyph,
    Surface,
    ScrollBar,
    Flex,
    Container,
    Frame,
    Tag,
    Dynamic,
    Opt,
    Either,
    Boxed,
    Arced,
    Other,
}

impl Kind {
    /// views for which the property claims "reported size lies within the given constraint"
    fn size_claimed(self) -> bool {
        matches!(
            self,
            Kind::Text
                | Kind::Fill
                | Kind::Unit
                | Kind::Image
                | Kind::ImageAscii
                | Kind::Glyph
                | Kind::Surface
                | Kind::Flex
                | Kind::Container
        )
    }
    fn name(self) -> &'static str {
        match self {
            Kind::Probe => "probe",
            Kind::Text => "text",
            Kind::Fill => "fill",
            Kind::Unit => "unit",
            Kind::Image => "image",
            Kind::ImageAscii => "image_ascii",
            Kind::Glyph => "glyph",
            Kind::Surface => "surface",
            Kind::ScrollBar => "scrollbar",
            Kind::Flex => "flex",
            Kind::Container => "container",
            Kind::Frame => "frame",
            Kind::Tag => "tag",
            Kind::Dynamic => "dynamic",
            Kind::Opt => "option",
            Kind::Either => "either",
            Kind::Boxed => "box",
            Kind::Arced => "arc",
            Kind::Other => "other",
        }
    }
}

#[derive(Clone, Copy, Debug)]
struct SpyRec {
    node: usize,
    kind: Kind,
    ct: BoxConstraint,
    size: Size,
}

#[derive(Clone, Copy, Debug)]
struct ProbeRender {
    idx: usize,
    id: TreeId,
    got: Size,
}

#[derive(Default)]
struct Log {
    spy: Mutex<Vec<SpyRec>>,
    renders: Mutex<Vec<ProbeRender>>,
    /// probe index -> tags of the Tag views around it, outermost first
    probe_tags: Mutex<std::collections::HashMap<usize, Vec<u64>>>,
    depth: AtomicUsize,
    runaway: AtomicBool,
}

/// nesting of Spy::render above which the recursion is declared unbounded (real trees: <= 5
/// levels, each level passes through at most a handful of spies)
const RUNAWAY_DEPTH: usize = 200;

struct Spy {
    inner: Box<dyn View>,
    kind: Kind,
    node: usize,
    log: Arc<Log>,
}

impl View for Spy {
    fn render(
        &self,
        ctx: &ViewContext,
        surf: TerminalSurface<'_>,
        layout: ViewLayout<'_>,
    ) -> Result<(), Error> {
        let depth = self.log.depth.fetch_add(1, Ordering::Relaxed);
        if depth > RUNAWAY_DEPTH {
            self.log.runaway.store(true, Ordering::Relaxed);
            self.log.depth.fetch_sub(1, Ordering::Relaxed);
            return Err(Error::InvalidLayout);
        }
        let result = self.inner.render(ctx, surf, layout);
        self.log.depth.fetch_sub(1, Ordering::Relaxed);
        result
    }

    fn layout(
        &self,
        ctx: &ViewContext,
        ct: BoxConstraint,
        mut layout: ViewMutLayout<'_>,
    ) -> Result<(), Error> {
        self.inner.layout(ctx, ct, layout.view_mut())?;
        self.log.spy.lock().unwrap().push(SpyRec {
            node: self.node,
            kind: self.kind,
            ct,
            size: layout.size(),
        });
        Ok(())
    }
}

struct Probe {
    idx: usize,
    want: Size,
    log: Arc<Log>,
}

impl View for Probe {
    fn render(
        &self,
        _ctx: &ViewContext,
        surf: TerminalSurface<'_>,
        layout: ViewLayout<'_>,
    ) -> Result<(), Error> {
        let id = layout.id();
        let mut surf = layout.apply_to(surf);
        self.log.renders.lock().unwrap().push(ProbeRender {
            idx: self.idx,
            id,
            got: surf.size(),
        });
        surf.fill(Cell::new_char(Face::default(), probe_char(self.idx)));
        Ok(())
    }

    fn layout(
        &self,
        _ctx: &ViewContext,
        ct: BoxConstraint,
        mut layout: ViewMutLayout<'_>,
    ) -> Result<(), Error> {
        // ct.clamp(want) without the assertion of Ord::clamp (a broken constraint handed
        // down by a library view must not panic inside the harness)
        let size = Size {
            height: self.want.height.min(ct.max().height).max(ct.min().height),
            width: self.want.width.min(ct.max().width).max(ct.min().width),
        };
        *layout = Layout::new().with_size(size);
        Ok(())
    }
}

/// `SurfaceView<Cell>` needs an owner
struct OwnedSurf {
    surf: SurfaceOwned<Cell>,
    sub: bool,
}

impl OwnedSurf {
    fn with<R>(&self, f: impl FnOnce(&dyn View) -> R) -> R {
        if self.sub {
            f(&self.surf.view(1.., 1..))
        } else {
            f(&self.surf.as_ref())
        }
    }
}

impl View for OwnedSurf {
    fn render(
        &self,
        ctx: &ViewContext,
        surf: TerminalSurface<'_>,
        layout: ViewLayout<'_>,
    ) -> Result<(), Error> {
        self.with(|v| v.render(ctx, surf, layout))
    }
    fn layout(
        &self,
        ctx: &ViewContext,
        ct: BoxConstraint,
        layout: ViewMutLayout<'_>,
    ) -> Result<(), Error> {
        self.with(|v| v.layout(ctx, ct, layout))
    }
}

/// forwarding view whose type differs per `N` (return type of nested `Dynamic` closures)
struct Distinct<const N: usize>(Box<dyn View>);

impl<const N: usize> View for Distinct<N> {
    fn render(
        &self,
        ctx: &ViewContext,
        surf: TerminalSurface<'_>,
        layout: ViewLayout<'_>,
    ) -> Result<(), Error> {
        self.0.render(ctx, surf, layout)
    }
    fn layout(
        &self,
        ctx: &ViewContext,
        ct: BoxConstraint,
        layout: ViewMutLayout<'_>,
    ) -> Result<(), Error> {
        self.0.layout(ctx, ct, layout)
    }
}

// ---------------------------------------------------------------------------------------
// Node -> library views

impl Node {
    fn kind(&self) -> Kind {
        match self {
            Node::Probe { .. } => Kind::Probe,
            Node::Text { .. } => Kind::Text,
            Node::Fill(_) => Kind::Fill,
            Node::Unit => Kind::Unit,
            Node::Image { ascii: false, .. } => Kind::Image,
            Node::Image { ascii: true, .. } => Kind::ImageAscii,
            Node::Glyph { .. } => Kind::Glyph,
            Node::Surface { .. } => Kind::Surface,
            Node::ScrollBar { .. } => Kind::ScrollBar,
            Node::Flex { .. } => Kind::Flex,
            Node::Container { .. } => Kind::Container,
            Node::Frame { .. } => Kind::Frame,
            Node::Tag(_) => Kind::Tag,
            Node::Dynamic { .. } => Kind::Dynamic,
            Node::Opt(_) => Kind::Opt,
            Node::Either(..) => Kind::Either,
            Node::Boxed(_) => Kind::Boxed,
            Node::Arced(_) => Kind::Arced,
        }
    }

    fn children(&self) -> Vec<&Node> {
        match self {
            Node::Flex { kids, .. } => kids.iter().map(|k| &k.node).collect(),
            Node::Container { child, .. }
            | Node::Frame { child, .. }
            | Node::Dynamic { child, .. }
            | Node::Tag(child)
            | Node::Either(_, child)
            | Node::Boxed(child)
            | Node::Arced(child) => vec![&**child],
            Node::Opt(Some(child)) => vec![&**child],
            _ => Vec::new(),
        }
    }

    /// (nodes, probes) in the subtree
    fn count(&self) -> (usize, usize) {
        let mut n = (1, matches!(self, Node::Probe { .. }) as usize);
        for c in self.children() {
            let (a, b) = c.count();
            n.0 += a;
            n.1 += b;
        }
        n
    }

    fn depth(&self) -> usize {
        1 + self.children().iter().map(|c| c.depth()).max().unwrap_or(0)
    }
}

/// a `Dynamic` whose closure returns `Box<dyn View>` laid out on the same layout node as
/// another such `Dynamic` directly above it (only in-place forwarders in between)
fn nested_same_type_dynamic(n: &Node, glyphs: bool, under_same: bool) -> bool {
    match n {
        Node::Dynamic { same_type, child } => {
            (*same_type && under_same) || nested_same_type_dynamic(child, glyphs, *same_type)
        }
        Node::Opt(Some(c)) | Node::Either(_, c) | Node::Boxed(c) | Node::Arced(c) => {
            nested_same_type_dynamic(c, glyphs, under_same)
        }
        Node::Frame { child, .. } if !glyphs => nested_same_type_dynamic(child, glyphs, under_same),
        _ => n.children().iter().any(|c| nested_same_type_dynamic(c, glyphs, false)),
    }
}

/// margins from this size on count as "huge" (far beyond any surface)
const HUGE: usize = 1 << 40;

/// a flex factor that `Flex::push_child_ext` would have dropped (<= 0) or whose share
/// `remain * flex / total` is not a sane number of cells
fn wild_factor(f: f64) -> bool {
    !(f > 0.0) || f >= 1e300 || f < 1e-200
}

impl Src {
    fn wild_flex_factor(&self) -> bool {
        fn rec(n: &JNode) -> bool {
            if let JNode::Flex { children, .. } = n {
                if children.iter().any(|k| matches!(k, JKid::Ext { flex: Some(f), .. } if wild_factor(*f))) {
                    return true;
                }
            }
            n.children().iter().any(|c| rec(c))
        }
        match self {
            Src::Built(_) => false,
            Src::Json(n) => rec(n),
        }
    }

    fn huge_margin(&self) -> bool {
        fn built(n: &Node) -> bool {
            matches!(n, Node::Container { margins, .. } if margins.iter().any(|m| *m >= HUGE))
                || n.children().iter().any(|c| built(c))
        }
        fn js(n: &JNode) -> bool {
            matches!(n, JNode::Container { margins: Some(m), .. } if m.iter().any(|m| *m >= HUGE))
                || n.children().iter().any(|c| js(c))
        }
        match self {
            Src::Built(n) => built(n),
            Src::Json(n) => js(n),
        }
    }
}

struct Bld {
    log: Arc<Log>,
    node: usize,
    probe: usize,
    /// tags of the enclosing Tag views, outermost first
    tags: Vec<u64>,
}

fn build(n: &Node, b: &mut Bld, dyn_depth: usize) -> Box<dyn View> {
    let me = b.node;
    b.node += 1;
    let inner: Box<dyn View> = match n {
        Node::Probe { h, w } => {
            let idx = b.probe;
            b.probe += 1;
            b.log.probe_tags.lock().unwrap().insert(idx, b.tags.clone());
            Box::new(Probe { idx, want: Size::new(*h, *w), log: b.log.clone() })
        }
        Node::Text { kind, s, wraps, face: f } => match kind {
            TextKind::Text => {
                let mut t = Text::new();
                t.set_wraps(*wraps);
                if let Some(f) = f {
                    t.set_face(face(*f));
                }
                for c in s.chars() {
                    t.put_char(c);
                }
                Box::new(t)
            }
            TextKind::Str => Box::new(s.clone().into_boxed_str()),
            TextKind::String => Box::new(s.clone()),
        },
        Node::Fill(c) => Box::new(color(*c)),
        Node::Unit => Box::new(()),
        Node::Image { h, w, ascii } => {
            let img = make_image(*h, *w);
            if *ascii { Box::new(img.ascii_view()) } else { Box::new(img) }
        }
        Node::Glyph { h, w, fallback } => Box::new(make_glyph(*h, *w, fallback)),
        Node::Surface { h, w, sub } => Box::new(OwnedSurf {
            surf: SurfaceOwned::new_with(Size::new(*h, *w), |p| {
                Cell::new_char(face((p.row + p.col) as u8), if p.col % 2 == 0 { 's' } else { 'u' })
            }),
            sub: *sub,
        }),
        Node::ScrollBar { vertical, pos, face: f } => Box::new(ScrollBar::new(
            if *vertical { Axis::Vertical } else { Axis::Horizontal },
            f.map(face).unwrap_or_default(),
            scroll_pos(*pos),
        )),
        Node::Flex { vertical, justify, via_ref, kids } => {
            let axis = if *vertical { Axis::Vertical } else { Axis::Horizontal };
            if *via_ref {
                let mut children: Vec<FlexChild<Box<dyn View>>> = Vec::new();
                for k in kids {
                    let mut child = FlexChild::new(build(&k.node, b, dyn_depth)).align(k.align.lib());
                    if let Some(f) = k.flex {
                        child = child.flex(f);
                    }
                    if let Some(f) = k.face {
                        child = child.face(face(f));
                    }
                    children.push(child);
                }
                Box::new(FlexRef::new(children).direction(axis).justify(justify.lib()))
            } else {
                let mut flex = Flex::new(axis).justify(justify.lib());
                for k in kids {
                    let child = build(&k.node, b, dyn_depth);
                    flex.push_child_ext(child, k.flex, k.face.map(face), k.align.lib());
                }
                Box::new(flex)
            }
        }
        Node::Container { h, w, v, hz, margins, face: f, child } => {
            let mut c = Container::new(build(child, b, dyn_depth))
                .with_size(Size::new(*h, *w))
                .with_vertical(v.lib())
                .with_horizontal(hz.lib())
                .with_margins(Margins {
                    left: margins[0],
                    right: margins[1],
                    top: margins[2],
                    bottom: margins[3],
                });
            if let Some(f) = f {
                c = c.with_face(face(*f));
            }
            Box::new(c)
        }
        Node::Frame { bw, br, child } => Box::new(Frame::new(
            build(child, b, dyn_depth),
            color(*bw),
            color(bw.wrapping_add(*br)),
            FRAME_NUM[*bw as usize % FRAME_NUM.len()],
            FRAME_NUM[*br as usize % FRAME_NUM.len()],
        )),
        Node::Tag(child) => {
            b.tags.push(me as u64);
            let inner = build(child, b, dyn_depth);
            b.tags.pop();
            Box::new(Tag::new(me as u64, inner))
        }
        Node::Dynamic { same_type, child } => {
            let start = (b.node, b.probe);
            let (nn, np) = child.count();
            b.node += nn;
            b.probe += np;
            let child = (**child).clone();
            let log = b.log.clone();
            let tags = b.tags.clone();
            let mk = move || -> Box<dyn View> {
                let mut bb = Bld { log: log.clone(), node: start.0, probe: start.1, tags: tags.clone() };
                build(&child, &mut bb, dyn_depth + 1)
            };
            if *same_type {
                Box::new(Dynamic::new(move |_: &ViewContext, _: BoxConstraint| mk()))
            } else {
                macro_rules! distinct {
                    ($n:literal) => {
                        Box::new(Dynamic::new(move |_: &ViewContext, _: BoxConstraint| {
                            Distinct::<$n>(mk())
                        }))
                    };
                }
                match dyn_depth {
                    0 => distinct!(0),
                    1 => distinct!(1),
                    2 => distinct!(2),
                    3 => distinct!(3),
                    4 => distinct!(4),
                    5 => distinct!(5),
                    _ => distinct!(6),
                }
            }
        }
        Node::Opt(child) => {
            let v: Option<Box<dyn View>> = child.as_ref().map(|c| build(c, b, dyn_depth));
            Box::new(v)
        }
        Node::Either(left, child) => {
            let v = build(child, b, dyn_depth);
            let e: Either<Box<dyn View>, Box<dyn View>> =
                if *left { Either::Left(v) } else { Either::Right(v) };
            Box::new(e)
        }
        Node::Boxed(child) => Box::new(build(child, b, dyn_depth)),
        Node::Arced(child) => {
            let v: Arc<dyn View> = Arc::from(build(child, b, dyn_depth));
            Box::new(v)
        }
    };
    Box::new(Spy { inner, kind: n.kind(), node: me, log: b.log.clone() })
}

/// per probe (preorder index): the ancestors that push a child layout, outermost first
#[derive(Clone, Copy, Debug, PartialEq, Eq)]
enum Hop {
    /// flex: direction and index of the child on the path
    Flex { vertical: bool, idx: usize },
    /// container / tag / frame (with glyphs): exactly one child
    Single,
}

fn probe_paths(n: &Node, glyphs: bool, cur: &mut Vec<Hop>, out: &mut Vec<Vec<Hop>>) {
    match n {
        Node::Probe { .. } => out.push(cur.clone()),
        Node::Flex { vertical, kids, .. } => {
            for (idx, k) in kids.iter().enumerate() {
                cur.push(Hop::Flex { vertical: *vertical, idx });
                probe_paths(&k.node, glyphs, cur, out);
                cur.pop();
            }
        }
        Node::Container { child, .. } | Node::Tag(child) => {
            cur.push(Hop::Single);
            probe_paths(child, glyphs, cur, out);
            cur.pop();
        }
        Node::Frame { child, .. } => {
            if glyphs {
                cur.push(Hop::Single);
            }
            probe_paths(child, glyphs, cur, out);
            if glyphs {
                cur.pop();
            }
        }
        _ => {
            for c in n.children() {
                probe_paths(c, glyphs, cur, out);
            }
        }
    }
}

// ---------------------------------------------------------------------------------------
// JNode -> JSON

fn base64(data: &[u8]) -> String {
    const T: &[u8; 64] = b"ABCDEFGHIJKLMNOPQRSTUVWXYZabcdefghijklmnopqrstuvwxyz0123456789+/";
    let mut out = String::new();
    for chunk in data.chunks(3) {
        let b = [chunk[0], *chunk.get(1).unwrap_or(&0), *chunk.get(2).unwrap_or(&0)];
        let n = ((b[0] as u32) << 16) | ((b[1] as u32) << 8) | b[2] as u32;
        out.push(T[(n >> 18) as usize & 63] as char);
        out.push(T[(n >> 12) as usize & 63] as char);
        out.push(if chunk.len() > 1 { T[(n >> 6) as usize & 63] as char } else { '=' });
        out.push(if chunk.len() > 2 { T[n as usize & 63] as char } else { '=' });
    }
    out
}

fn glyph_json(h: usize, w: usize, fallback: &str) -> Value {
    json!({ "path": GLYPH_PATH, "size": [h, w], "view_box": [0, 0, 20, 20], "fallback": fallback })
}

fn margins_json(m: &[usize; 4]) -> Value {
    json!({ "left": m[0], "right": m[1], "top": m[2], "bottom": m[3] })
}

impl JText {
    fn json(&self) -> Value {
        match self {
            JText::Str(s) => json!(s),
            JText::List(items) => Value::Array(items.iter().map(|t| t.json()).collect()),
            JText::Obj { face: f, wraps, text } => {
                let mut m = serde_json::Map::new();
                if let Some(f) = f {
                    m.insert("face".into(), json!(FACES[*f as usize % FACES.len()]));
                }
                if let Some(w) = wraps {
                    m.insert("wraps".into(), json!(w));
                }
                m.insert("text".into(), text.json());
                Value::Object(m)
            }
            JText::Glyph { h, w, fallback } => json!({ "glyph": glyph_json(*h, *w, fallback) }),
        }
    }
}

impl JNode {
    fn kind(&self) -> Kind {
        match self {
            JNode::Text(_) => Kind::Text,
            JNode::Flex { .. } => Kind::Flex,
            JNode::Container { .. } => Kind::Container,
            JNode::Tag(..) => Kind::Tag,
            JNode::Color(_) => Kind::Fill,
            JNode::Glyph { .. } => Kind::Glyph,
            JNode::Image { ascii: false, .. } => Kind::Image,
            JNode::Image { ascii: true, .. } => Kind::ImageAscii,
            JNode::Trace(_) | JNode::Ref(_) => Kind::Other,
        }
    }

    fn children(&self) -> Vec<&JNode> {
        match self {
            JNode::Flex { children, .. } => children
                .iter()
                .map(|k| match k {
                    JKid::Plain(n) => n,
                    JKid::Ext { view, .. } => view,
                })
                .collect(),
            JNode::Container { child, .. } | JNode::Tag(_, child) | JNode::Trace(child) => {
                vec![&**child]
            }
            _ => Vec::new(),
        }
    }

    fn depth(&self) -> usize {
        1 + self.children().iter().map(|c| c.depth()).max().unwrap_or(0)
    }

    fn json(&self) -> Value {
        match self {
            JNode::Text(t) => json!({ "type": "text", "text": t.json() }),
            JNode::Flex { vertical, justify, children } => {
                let mut m = serde_json::Map::new();
                m.insert("type".into(), json!("flex"));
                if let Some(v) = vertical {
                    m.insert("direction".into(), json!(if *v { "vertical" } else { "horizontal" }));
                }
                if let Some(j) = justify {
                    m.insert("justify".into(), json!(j.json()));
                }
                let kids: Vec<Value> = children
                    .iter()
                    .map(|k| match k {
                        JKid::Plain(n) => n.json(),
                        JKid::Ext { flex, align, face: f, view } => {
                            let mut m = serde_json::Map::new();
                            if let Some(f) = flex {
                                m.insert("flex".into(), json!(f));
                            }
                            if let Some(a) = align {
                                m.insert("align".into(), a.json());
                            }
                            if let Some(f) = f {
                                m.insert("face".into(), json!(FACES[*f as usize % FACES.len()]));
                            }
                            m.insert("view".into(), view.json());
                            Value::Object(m)
                        }
                    })
                    .collect();
                m.insert("children".into(), Value::Array(kids));
                Value::Object(m)
            }
            JNode::Container { size, margins, vertical, horizontal, face: f, child } => {
                let mut m = serde_json::Map::new();
                m.insert("type".into(), json!("container"));
                if let Some((h, w)) = size {
                    m.insert("size".into(), json!([h, w]));
                }
                if let Some(mm) = margins {
                    m.insert("margins".into(), margins_json(mm));
                }
                if let Some(a) = vertical {
                    m.insert("vertical".into(), a.json());
                }
                if let Some(a) = horizontal {
                    m.insert("horizontal".into(), a.json());
                }
                if let Some(f) = f {
                    m.insert("face".into(), json!(FACES[*f as usize % FACES.len()]));
                }
                m.insert("child".into(), child.json());
                Value::Object(m)
            }
            JNode::Tag(t, view) => json!({ "type": "tag", "tag": { "id": t }, "view": view.json() }),
            JNode::Color(c) => json!({ "type": "color", "color": COLORS[*c as usize % COLORS.len()] }),
            JNode::Glyph { h, w, fallback } => {
                let mut v = glyph_json(*h, *w, fallback);
                v["type"] = json!("glyph");
                v
            }
            JNode::Image { ascii, h, w, channels } => {
                let n = *channels as usize * h * w;
                let data: Vec<u8> = (0..n).map(|i| (i * 37 % 251) as u8).collect();
                json!({
                    "type": if *ascii { "image_ascii" } else { "image" },
                    "size": [h, w],
                    "channels": channels,
                    "data": base64(&data),
                })
            }
            JNode::Trace(view) => json!({ "type": "trace-layout", "msg": "c10", "view": view.json() }),
            JNode::Ref(uid) => json!({ "type": "ref", "ref": uid }),
        }
    }
}

// ---------------------------------------------------------------------------------------
// geometry in window coordinates (i128: positions with huge margins must not overflow here)

#[derive(Clone, Copy, Debug, PartialEq, Eq)]
struct Rect {
    r0: i128,
    c0: i128,
    r1: i128,
    c1: i128,
}

impl Rect {
    fn at(row: i128, col: i128, size: Size) -> Self {
        Rect { r0: row, c0: col, r1: row + size.height as i128, c1: col + size.width as i128 }
    }
    fn intersect(self, o: Rect) -> Rect {
        Rect { r0: self.r0.max(o.r0), c0: self.c0.max(o.c0), r1: self.r1.min(o.r1), c1: self.c1.min(o.c1) }
    }
    fn is_empty(self) -> bool {
        self.r0 >= self.r1 || self.c0 >= self.c1
    }
    fn contains(self, r: i128, c: i128) -> bool {
        self.r0 <= r && r < self.r1 && self.c0 <= c && c < self.c1
    }
    fn area(self) -> i128 {
        if self.is_empty() { 0 } else { (self.r1 - self.r0) * (self.c1 - self.c0) }
    }
}

/// one step of the path root -> target in the layout tree
#[derive(Clone, Copy, Debug)]
struct Step {
    id: TreeId,
    /// absolute rectangle (window coordinates), not clipped
    rect: Rect,
    /// index among the parent's children
    idx: usize,
}

fn find_chain(view: ViewLayout<'_>, target: TreeId, origin: (i128, i128), idx: usize, chain: &mut Vec<Step>) -> bool {
    let pos = view.position();
    let rect = Rect::at(origin.0 + pos.row as i128, origin.1 + pos.col as i128, view.size());
    chain.push(Step { id: view.id(), rect, idx });
    if view.id() == target {
        return true;
    }
    for (i, child) in view.children().enumerate() {
        if find_chain(child, target, (rect.r0, rect.c0), i, chain) {
            return true;
        }
    }
    chain.pop();
    false
}

// ---------------------------------------------------------------------------------------
// one (tree, constraint) run

#[derive(Default)]
struct Obs {
    labels: Vec<String>,
    probes_painted: usize,
    exact_cells: usize,
    hit_cells: usize,
    clipped_probe: bool,
}

fn known_sigs() -> &'static HashSet<String> {
    static KNOWN: OnceLock<HashSet<String>> = OnceLock::new();
    KNOWN.get_or_init(|| load_known_findings("C10").into_iter().map(|k| k.sig).collect())
}

enum Root {
    Built { view: Box<dyn View>, paths: Vec<Vec<Hop>> },
    Json { view: Box<dyn View> },
}

fn cell_char(c: &Cell) -> Option<char> {
    match c.kind() {
        CellKind::Char(c) => Some(*c),
        _ => None,
    }
}

/// Run one constraint.  Violations that do not stop the run are appended to `fails`;
/// a panic (nothing more can be observed) is returned as Err.
fn run_one(case: &Case, ct: Ct, fails: &mut Vec<Fail>, obs: &mut Obs) -> Result<(), Fail> {
    let describe = |what: &str| -> String {
        format!(
            "{what}\n  constraint {:?} glyphs={} ppc={:?} win={:?}\n  tree: {}",
            ct,
            case.glyphs,
            case.ppc,
            case.win,
            serde_json::to_string(&case.src).unwrap_or_default()
        )
    };
    // signatures key the known-findings file, whose parser splits on white space
    let with_case = |f: Fail, phase: &str| {
        let mut sig: String = f.sig.chars().map(|c| if c.is_whitespace() { '_' } else { c }).collect();
        // Two input classes make unchecked usize arithmetic overflow at many different places
        // (one signature per place would hide nothing but need a dozen entries): key those by
        // the input class instead of the panic site; the site stays in the message.
        if sig.starts_with("panic:") && sig.contains("overflow") {
            if case.src.wild_flex_factor() {
                sig = "arith-overflow/unsanitised-flex-factor".into();
            } else if case.src.huge_margin() {
                sig = "arith-overflow/huge-container-margin".into();
            }
        }
        Fail::new(sig, describe(&format!("{phase}: {}", f.msg)))
    };

    let log = Arc::new(Log::default());
    let term = RecTerm::new(Size::new(24, 80), Size::new(case.ppc.0, case.ppc.1), case.glyphs);
    let ctx = term.ctx();

    // ---- build
    let root = match &case.src {
        Src::Built(node) => {
            let view = guard_val(|| {
                let mut b = Bld { log: log.clone(), node: 0, probe: 0, tags: Vec::new() };
                build(node, &mut b, 0)
            })
            .map_err(|f| with_case(f, "constructing the views"))?;
            let mut paths = Vec::new();
            probe_paths(node, case.glyphs, &mut Vec::new(), &mut paths);
            Root::Built { view, paths }
        }
        Src::Json(jnode) => {
            let value = jnode.json();
            let deser = ViewDeserializer::new(None, Some(std::sync::Arc::new(crate::mockterm::FlipCache::new())));
            let res = guard_val(|| (&deser).deserialize(value.clone()))
                .map_err(|f| with_case(f, &format!("deserialising {value}")))?;
            match res {
                Ok(view) => {
                    obs.labels.push("json/deserialised".into());
                    let spy = Spy { inner: Box::new(view), kind: jnode.kind(), node: 0, log: log.clone() };
                    Root::Json { view: Box::new(spy) }
                }
                Err(_) => {
                    // the property speaks about trees *obtained* by deserialising
                    obs.labels.push("json/deserialise-error".into());
                    return Ok(());
                }
            }
        }
    };
    let (view, paths): (&dyn View, &[Vec<Hop>]) = match &root {
        Root::Built { view, paths } => (&**view, paths),
        Root::Json { view } => (&**view, &[]),
    };

    // ---- oracle 1: layout terminates without panic
    let mut store = ViewLayoutStore::new();
    let laid = guard_val(|| view.layout_new(&ctx, ct.lib(), &mut store).map(|l| l.id()))
        .map_err(|f| with_case(f, "layout_new"))?;
    let root_id = match laid {
        Ok(id) => id,
        Err(_) => {
            obs.labels.push("result/layout-err".into());
            return Ok(());
        }
    };
    let root_layout = ViewLayout::from_id(&store, root_id);

    // ---- oracle 3: sizes within the constraint each node received
    for rec in log.spy.lock().unwrap().iter() {
        if !rec.kind.size_claimed() {
            continue;
        }
        let (min, max) = (rec.ct.min(), rec.ct.max());
        if min.height > max.height || min.width > max.width {
            // not a valid constraint: nothing is claimed
            obs.labels.push("spy/invalid-constraint-received".into());
            continue;
        }
        let above = rec.size.height > max.height || rec.size.width > max.width;
        let below = rec.size.height < min.height || rec.size.width < min.width;
        if above || below {
            fails.push(Fail::new(
                format!(
                    "size/{}-outside-constraint/{}",
                    rec.kind.name(),
                    if above { "above-max" } else { "below-min" }
                ),
                describe(&format!(
                    "node #{} ({}) received {:?} and reported size {:?}",
                    rec.node,
                    rec.kind.name(),
                    rec.ct,
                    rec.size
                )),
            ));
            break;
        }
    }

    // ---- render into a window of a sentinel-filled canvas
    let root_size = root_layout.size();
    let win = match case.win {
        Win::Max => Size::new(ct.max_h, ct.max_w),
        Win::Smaller => Size::new(ct.max_h.saturating_sub(1), ct.max_w.saturating_sub(1)),
        Win::Larger => Size::new(ct.max_h + 3, ct.max_w + 3),
        Win::LayoutSize => Size::new(root_size.height.min(120), root_size.width.min(120)),
    };
    const BORDER: usize = 2;
    let sentinel = Cell::new_char(face(1), SENTINEL);
    let canvas_size = Size::new(win.height + 2 * BORDER, win.width + 2 * BORDER);
    let mut canvas = SurfaceOwned::new_with(canvas_size, |_| sentinel.clone());
    let rendered = {
        let window = canvas.view_mut(BORDER..BORDER + win.height, BORDER..BORDER + win.width);
        guard_val(|| view.render(&ctx, window, root_layout.view()))
            .map_err(|f| with_case(f, "render"))?
    };
    if log.runaway.load(Ordering::Relaxed) {
        let class = match &case.src {
            Src::Built(n) if nested_same_type_dynamic(n, case.glyphs, false) => "dynamic-in-dynamic-same-type",
            _ => "other",
        };
        fails.push(Fail::new(
            format!("terminate/unbounded-render-recursion/{class}"),
            describe(&format!(
                "render re-entered the same view more than {RUNAWAY_DEPTH} levels deep (cut by the harness; it would overflow the stack)"
            )),
        ));
        return Ok(());
    }
    obs.labels.push(if rendered.is_ok() { "result/ok".into() } else { "result/render-err".into() });
    if let Err(e) = &rendered {
        // the layout was produced by this very tree under this very context: a view that then
        // refuses to render has not painted the rectangle the layout tree records for it
        fails.push(Fail::new(
            "paint/render-error-after-successful-layout",
            describe(&format!("layout_new succeeded but render returned {e:?}")),
        ));
    }

    // ---- oracle 2: nothing outside the window changed
    let window_rect = Rect::at(0, 0, win);
    'outer: for row in 0..canvas_size.height {
        for col in 0..canvas_size.width {
            let (r, c) = (row as i128 - BORDER as i128, col as i128 - BORDER as i128);
            if window_rect.contains(r, c) {
                continue;
            }
            let cell = canvas.get(Position::new(row, col)).expect("canvas cell");
            if *cell != sentinel {
                fails.push(Fail::new(
                    "contain/write-outside-surface",
                    describe(&format!(
                        "cell at window coordinates ({r},{c}) outside the {}x{} window was modified to {:?}",
                        win.height, win.width, cell
                    )),
                ));
                break 'outer;
            }
        }
    }

    // ---- oracle 4: probes paint exactly their recorded rectangle; hit-testing agrees
    let renders = log.renders.lock().unwrap().clone();
    let nprobes = paths.len();
    // expected (clipped) rectangle and cover bands per probe
    let mut expected: Vec<Vec<(Rect, Rect, Vec<Rect>)>> = vec![Vec::new(); nprobes.max(26)];
    let root_pos = root_layout.position();
    for pr in &renders {
        let mut chain = Vec::new();
        if !find_chain(root_layout.view(), pr.id, (0, 0), 0, &mut chain) {
            fails.push(Fail::new(
                "paint/probe-layout-node-unreachable",
                describe(&format!("probe {} was rendered with a layout node that is not reachable from the root layout", probe_char(pr.idx))),
            ));
            continue;
        }
        let own = chain.last().unwrap().rect;
        let mut clip = window_rect;
        for s in &chain {
            clip = clip.intersect(s.rect);
        }
        // the surface the probe was handed is its clipped rectangle
        let want_area = clip.area();
        let got_area = (pr.got.height * pr.got.width) as i128;
        let same_shape = if want_area == 0 {
            got_area == 0
        } else {
            pr.got.height as i128 == clip.r1 - clip.r0 && pr.got.width as i128 == clip.c1 - clip.c0
        };
        if !same_shape {
            fails.push(Fail::new(
                "paint/probe-surface-shape",
                describe(&format!(
                    "probe {}: layout tree records rectangle {:?} (clipped by ancestors and window: {:?}) but the surface it was asked to paint is {:?}",
                    probe_char(pr.idx), own, clip, pr.got
                )),
            ));
        }
        if own != clip {
            obs.clipped_probe = true;
        }
        // later flex siblings of every ancestor on the path may repaint
        let hops = paths.get(pr.idx);
        let hops_ok = hops.map(|h| h.len() + 1 == chain.len()).unwrap_or(false);
        if !hops_ok {
            obs.labels.push("walker/chain-length-mismatch".into());
        }
        let mut cover = Vec::new();
        for k in 0..chain.len() - 1 {
            let anc = ViewLayout::from_id(&store, chain[k].id);
            let on_path = chain[k + 1].idx;
            let dir = if hops_ok {
                match hops.unwrap()[k] {
                    Hop::Flex { vertical, idx } if idx == on_path => Some(vertical),
                    Hop::Flex { .. } => None,
                    Hop::Single => None,
                }
            } else {
                None
            };
            for sib in anc.children().skip(on_path + 1) {
                let p = sib.position();
                let s = Rect::at(chain[k].rect.r0 + p.row as i128, chain[k].rect.c0 + p.col as i128, sib.size());
                const INF: i128 = i128::MAX / 4;
                match dir {
                    Some(true) => cover.push(Rect { r0: s.r0, r1: s.r1, c0: -INF, c1: INF }),
                    Some(false) => cover.push(Rect { r0: -INF, r1: INF, c0: s.c0, c1: s.c1 }),
                    None => {
                        cover.push(Rect { r0: s.r0, r1: s.r1, c0: -INF, c1: INF });
                        cover.push(Rect { r0: -INF, r1: INF, c0: s.c0, c1: s.c1 });
                    }
                }
            }
        }
        if pr.idx < expected.len() {
            expected[pr.idx].push((own, clip, cover));
        }
    }

    // subset + hit-testing: scan the window
    let mut painted = vec![0usize; expected.len()];
    let mut subset_failed = false;
    let mut hit_failed = false;
    for row in 0..win.height {
        for col in 0..win.width {
            let cell = canvas.get(Position::new(row + BORDER, col + BORDER)).expect("canvas cell");
            let Some(idx) = cell_char(cell).and_then(probe_of_char) else { continue };
            let (r, c) = (row as i128, col as i128);
            painted[idx] += 1;
            let entry = expected[idx].iter().find(|(_, clip, _)| clip.contains(r, c));
            let Some((own, _, _)) = entry else {
                if !subset_failed {
                    subset_failed = true;
                    fails.push(Fail::new(
                        "paint/probe-outside-layout-rect",
                        describe(&format!(
                            "cell ({r},{c}) carries probe {} but the layout tree records {:?} (own rectangle, clipped rectangle) for it",
                            probe_char(idx),
                            expected[idx].iter().map(|(o, c, _)| (*o, *c)).collect::<Vec<_>>()
                        )),
                    ));
                }
                continue;
            };
            if hit_failed || row < root_pos.row || col < root_pos.col {
                continue;
            }
            // hit-testing (positions are relative to the root layout's origin)
            let query = Position::new(row - root_pos.row, col - root_pos.col);
            let path: Vec<&Layout> = guard_val(|| root_layout.find_path(query).collect())
                .map_err(|f| with_case(f, "find_path"))?;
            obs.hit_cells += 1;
            let mut origin = (0i128, 0i128);
            let mut last = Rect::at(0, 0, Size::empty());
            for l in &path {
                let p = l.position();
                last = Rect::at(origin.0 + p.row as i128, origin.1 + p.col as i128, l.size());
                origin = (last.r0, last.c0);
            }
            // the tags on the path identify the views drawn there: exactly the Tag views that
            // enclose this probe, outermost first
            let got_tags: Vec<u64> = path.iter().filter_map(|l| l.data::<u64>().copied()).collect();
            let want_tags = log.probe_tags.lock().unwrap().get(&idx).cloned();
            if let Some(want_tags) = want_tags {
                if !(path.is_empty() || last != *own) && got_tags != want_tags {
                    hit_failed = true;
                    fails.push(Fail::new(
                        "hit/tags-on-path-differ",
                        describe(&format!(
                            "cell ({r},{c}) is painted by probe {}, which is wrapped in Tag views {:?} (outermost first), but the layouts returned by find_path({:?}) carry the tags {:?}",
                            probe_char(idx), want_tags, query, got_tags
                        )),
                    ));
                }
                if !want_tags.is_empty() {
                    obs.labels.push("hit/probe-inside-tag".into());
                }
                if want_tags.len() >= 2 {
                    obs.labels.push("hit/probe-inside-nested-tags".into());
                }
            }
            if path.is_empty() || last != *own {
                hit_failed = true;
                fails.push(Fail::new(
                    "hit/find_path-ends-elsewhere",
                    describe(&format!(
                        "cell ({r},{c}) is painted by probe {} whose layout rectangle is {:?}, but find_path({:?}) ends in a layout with rectangle {:?} (path length {})",
                        probe_char(idx), own, query, last, path.len()
                    )),
                ));
            }
        }
    }
    // exactness: every cell of the clipped rectangle that nobody can repaint carries the letter
    'exact: for (idx, entries) in expected.iter().enumerate() {
        for (own, clip, cover) in entries {
            if clip.is_empty() {
                continue;
            }
            for r in clip.r0..clip.r1 {
                for c in clip.c0..clip.c1 {
                    if cover.iter().any(|b| b.contains(r, c)) {
                        continue;
                    }
                    obs.exact_cells += 1;
                    let cell = canvas
                        .get(Position::new(r as usize + BORDER, c as usize + BORDER))
                        .expect("canvas cell");
                    if cell_char(cell) != Some(probe_char(idx)) {
                        fails.push(Fail::new(
                            "paint/probe-rect-not-filled",
                            describe(&format!(
                                "probe {} fills the surface it is given; the layout tree records rectangle {:?} (clipped {:?}) for it and no later sibling covers ({r},{c}), yet that cell holds {:?}",
                                probe_char(idx), own, clip, cell
                            )),
                        ));
                        break 'exact;
                    }
                }
            }
        }
    }
    obs.probes_painted += painted.iter().filter(|n| **n > 0).count();
    Ok(())
}

/// FINDING (unchanged library), kept out of the search so that it can go on: a `Frame` rendered
/// with glyph support in a context whose cells are some pixels high but 0 pixels wide
/// (`TerminalSize` with fewer pixels than cells across, e.g. 384x0 pixels on 24x80 cells) panics in
/// `Frame::fragments` (src/view/frame.rs): the 3x3-cell scene is rendered into a `3h x 0` image
/// and rasterize-0.6.9 rasterize.rs:111 indexes the empty pixel buffer (`index out of bounds: the
/// len is 0 but the index is 0`).  0 x w and 0 x 0 cells do not panic.
fn frame_under_zero_cell_width(case: &Case) -> bool {
    fn has_frame(n: &Node) -> bool {
        matches!(n, Node::Frame { .. }) || n.children().into_iter().any(has_frame)
    }
    case.glyphs && case.ppc.0 > 0 && case.ppc.1 == 0 && matches!(&case.src, Src::Built(n) if has_frame(n))
}

fn check_case(case: &Case) -> Outcome {
    // with_default is per thread and the subscriber's callsite interest is `sometimes`: the
    // other shard threads keep behaving as a process without a subscriber
    crate::c19::listener::check_under(case.listen, &|| check_case_plain(case))
}

fn check_case_plain(case: &Case) -> Outcome {
    let mut fails: Vec<Fail> = Vec::new();
    let mut obs = Obs::default();
    for ct in &case.cts {
        if let Err(f) = run_one(case, *ct, &mut fails, &mut obs) {
            fails.push(f);
        }
    }
    if !fails.is_empty() {
        // continue past known findings: report the first failure that is not a known one
        let known = known_sigs();
        let pick = fails.iter().position(|f| !known.contains(&f.sig)).unwrap_or(0);
        return Err(fails.swap_remove(pick));
    }

    let degenerate = case.cts.iter().any(|c| c.degenerate());
    let (depth, mut pass) = match &case.src {
        Src::Built(n) => {
            let depth = n.depth();
            let nt = (depth >= 2 && obs.probes_painted > 0) || degenerate;
            let mut pass = Pass::new(nt)
                .label("src/built")
                .label(format!("root/{}", n.kind().name()))
                .label_if(n.count().1 > 0, "probe/present")
                .label_if(n.count().1 > 1, "probe/several");
            // structural labels
            let mut stack = vec![n];
            let mut seen: Vec<String> = Vec::new();
            while let Some(n) = stack.pop() {
                match n {
                    Node::Flex { justify, kids, via_ref, .. } => {
                        seen.push(format!("flex/justify/{}", justify.json()));
                        seen.push(format!("flex/children/{}", kids.len()));
                        if *via_ref {
                            seen.push("flex/via-FlexRef".into());
                        }
                        for k in kids {
                            seen.push(format!("flex/child-align/{}", k.align.name()));
                            if k.flex.is_some() {
                                seen.push("flex/child-flex-factor".into());
                            }
                        }
                    }
                    Node::Container { v, hz, margins, h, w, .. } => {
                        seen.push(format!("container/align/{}", v.name()));
                        seen.push(format!("container/align/{}", hz.name()));
                        if margins.iter().any(|m| *m >= HUGE) {
                            seen.push("container/huge-margin".into());
                        }
                        if *h == 0 || *w == 0 {
                            seen.push("container/size-unset".into());
                        }
                    }
                    Node::ScrollBar { pos, .. } if matches!(*pos % 10, 7 | 8) => {
                        seen.push("scrollbar/nan-or-inf".into());
                    }
                    other => seen.push(format!("node/{}", other.kind().name())),
                }
                stack.extend(n.children());
            }
            seen.sort();
            seen.dedup();
            for s in seen {
                pass = pass.label(s);
            }
            (depth, pass)
        }
        Src::Json(n) => {
            let depth = n.depth();
            let ok = obs.labels.iter().any(|l| l == "json/deserialised");
            let pass = Pass::new(ok && (depth >= 2 || degenerate))
                .label("src/json")
                .label(format!("json-root/{}", n.kind().name()));
            (depth, pass)
        }
    };
    if case.ppc.0 == 0 || case.ppc.1 == 0 {
        // which of the views that look at the cell size were exercised without one
        let class = if case.ppc == (0, 0) { "ctx/no-pixel-size" } else { "ctx/zero-cell-extent" };
        // (image, glyph view, frame) anywhere in the tree
        fn built(n: &Node, has: &mut [bool; 3]) {
            match n {
                Node::Image { .. } => has[0] = true,
                Node::Glyph { .. } => has[1] = true,
                Node::Frame { .. } => has[2] = true,
                _ => {}
            }
            n.children().into_iter().for_each(|c| built(c, has));
        }
        fn json(n: &JNode, has: &mut [bool; 3]) {
            match n {
                JNode::Image { .. } => has[0] = true,
                JNode::Glyph { .. } => has[1] = true,
                _ => {}
            }
            n.children().into_iter().for_each(|c| json(c, has));
        }
        let mut has = [false; 3];
        match &case.src {
            Src::Built(n) => built(n, &mut has),
            Src::Json(n) => json(n, &mut has),
        }
        pass = pass
            .label(class)
            .label_if(has[0], &format!("{class}/with-image"))
            .label_if(has[1], &format!("{class}/with-glyph"))
            .label_if(has[2], &format!("{class}/with-frame"));
    }
    pass = pass
        .label(format!("depth/{depth}"))
        .label(if case.glyphs { "glyphs/on" } else { "glyphs/off" })
        .label(format!("win/{:?}", case.win))
        .label_if(degenerate, "ct/extent<=1")
        .label_if(case.cts.iter().any(|c| c.max_h == 0 || c.max_w == 0), "ct/zero-max")
        .label_if(case.cts.iter().any(|c| c.min_h == c.max_h && c.min_w == c.max_w), "ct/tight")
        .label_if(case.cts.iter().any(|c| c.min_h == 0 && c.min_w == 0), "ct/loose")
        .label_if(obs.probes_painted > 0, "probe/painted")
        .label_if(obs.exact_cells > 0, "probe/exact-fill-checked")
        .label_if(obs.hit_cells > 0, "probe/hit-tested")
        .label_if(obs.clipped_probe, "probe/clipped-by-ancestor-or-window");
    obs.labels.sort();
    obs.labels.dedup();
    for l in obs.labels {
        pass = pass.label(l);
    }
    Ok(pass)
}

// ---------------------------------------------------------------------------------------
// strategies

fn sel<T: Clone + std::fmt::Debug + 'static>(v: &[T]) -> BoxedStrategy<T> {
    proptest::sample::select(v.to_vec()).boxed()
}

fn ct_strategy() -> BoxedStrategy<Ct> {
    let e = || sel(&[0usize, 1, 2, 3, 7, 20, 80]);
    prop_oneof![
        3 => (e(), e(), e(), e()).prop_map(|(a, b, c, d)| Ct {
            min_h: a.min(b), max_h: a.max(b), min_w: c.min(d), max_w: c.max(d)
        }),
        3 => (e(), e()).prop_map(|(h, w)| Ct { min_h: 0, min_w: 0, max_h: h, max_w: w }),
        1 => (e(), e()).prop_map(|(h, w)| Ct { min_h: h, min_w: w, max_h: h, max_w: w }),
    ]
    .boxed()
}

fn align_strategy() -> BoxedStrategy<Al> {
    prop_oneof![
        2 => Just(Al::Start),
        2 => Just(Al::Center),
        2 => Just(Al::End),
        2 => Just(Al::Expand),
        2 => Just(Al::Shrink),
        3 => sel(&[0i32, 1, -1, 2, -3, 5, 100, i32::MAX, i32::MIN]).prop_map(Al::Offset),
    ]
    .boxed()
}

fn justify_strategy() -> BoxedStrategy<J> {
    sel(&[J::Start, J::Center, J::End, J::SpaceBetween, J::SpaceAround, J::SpaceEvenly])
}

fn text_string() -> BoxedStrategy<String> {
    let ch = sel(&['a', 'b', ' ', 'c', '\n', '世', '\t', 'é', '1', '界', '\r', '\u{301}', '😀', 'x']);
    proptest::collection::vec(ch, 0..12).prop_map(|v| v.into_iter().collect()).boxed()
}

fn fallback_string() -> BoxedStrategy<String> {
    sel(&["", "x", "ab", "世", "a\nb"]).prop_map(|s| s.to_string()).boxed()
}

fn opt_face() -> BoxedStrategy<Option<u8>> {
    prop_oneof![2 => Just(None), 1 => (0u8..4).prop_map(Some)].boxed()
}

fn margins_strategy() -> BoxedStrategy<[usize; 4]> {
    let small = || 0usize..=5;
    let wild = || {
        prop_oneof![
            2 => 0usize..=5,
            1 => sel(&[usize::MAX / 2, usize::MAX, usize::MAX / 2 + 1, 1usize << 40]),
        ]
    };
    prop_oneof![
        4 => Just([0usize; 4]),
        8 => [small(), small(), small(), small()],
        1 => [wild(), wild(), wild(), wild()],
    ]
    .boxed()
}

fn leaf_strategy() -> BoxedStrategy<Node> {
    let want = || sel(&[1usize, 0, 2, 3, 5, 9, 30, 100]);
    let px = || sel(&[1usize, 0, 2, 3, 5, 8, 17]);
    prop_oneof![
        12 => (want(), want()).prop_map(|(h, w)| Node::Probe { h, w }),
        3 => (sel(&[TextKind::Text, TextKind::Str, TextKind::String]), text_string(), any::<bool>(), opt_face())
            .prop_map(|(kind, s, wraps, face)| Node::Text { kind, s, wraps, face }),
        1 => (0u8..4).prop_map(Node::Fill),
        1 => Just(Node::Unit),
        2 => (px(), px(), any::<bool>()).prop_map(|(h, w, ascii)| Node::Image { h, w, ascii }),
        1 => (sel(&[1usize, 0, 2, 3]), sel(&[1usize, 0, 2, 3, 4]), fallback_string())
            .prop_map(|(h, w, fallback)| Node::Glyph { h, w, fallback }),
        1 => (sel(&[1usize, 0, 2, 4]), sel(&[1usize, 0, 3, 6]), any::<bool>())
            .prop_map(|(h, w, sub)| Node::Surface { h, w, sub }),
        1 => (any::<bool>(), 0u8..10, opt_face())
            .prop_map(|(vertical, pos, face)| Node::ScrollBar { vertical, pos, face }),
    ]
    .boxed()
}

/// inner node whose children come from `inner`
fn inner_strategy(inner: BoxedStrategy<Node>) -> BoxedStrategy<Node> {
    let kid = (
        prop_oneof![3 => Just(None), 3 => sel(&[1.0f64, 0.5, 3.0]).prop_map(Some)],
        opt_face(),
        prop_oneof![2 => Just(Al::Start), 3 => align_strategy()],
        inner.clone(),
    )
        .prop_map(|(flex, face, align, node)| Kid { flex, face, align, node });
    let boxed = inner.prop_map(Box::new).boxed();
    let size = || sel(&[0usize, 1, 2, 3, 5, 10, 30, 100]);
    prop_oneof![
        6 => (any::<bool>(), justify_strategy(), prop::bool::weighted(0.2), proptest::collection::vec(kid, 0..=5))
            .prop_map(|(vertical, justify, via_ref, kids)| Node::Flex { vertical, justify, via_ref, kids }),
        6 => (size(), size(), align_strategy(), align_strategy(), margins_strategy(), opt_face(), boxed.clone())
            .prop_map(|(h, w, v, hz, margins, face, child)| Node::Container { h, w, v, hz, margins, face, child }),
        2 => (0u8..6, 0u8..6, boxed.clone()).prop_map(|(bw, br, child)| Node::Frame { bw, br, child }),
        2 => boxed.clone().prop_map(Node::Tag),
        2 => (prop::bool::weighted(0.3), boxed.clone())
            .prop_map(|(same_type, child)| Node::Dynamic { same_type, child }),
        1 => proptest::option::weighted(0.7, boxed.clone()).prop_map(Node::Opt),
        1 => (any::<bool>(), boxed.clone()).prop_map(|(l, c)| Node::Either(l, c)),
        1 => boxed.clone().prop_map(Node::Boxed),
        1 => boxed.prop_map(Node::Arced),
    ]
    .boxed()
}

/// tree with at most `levels` levels below this node
fn node_at(levels: usize) -> BoxedStrategy<Node> {
    if levels == 0 {
        return leaf_strategy();
    }
    let inner = inner_strategy(node_at(levels - 1));
    // the root is almost always an inner node; deeper down leaves become more likely
    let (leaf_w, inner_w) = match levels {
        4 => (1, 12),
        3 => (2, 5),
        2 => (3, 4),
        _ => (4, 3),
    };
    prop_oneof![leaf_w => leaf_strategy(), inner_w => inner].boxed()
}

fn node_strategy() -> BoxedStrategy<Node> {
    node_at(4)
        .prop_map(|mut n| {
            let mut budget = 12usize;
            prune(&mut n, &mut budget, 1);
            n
        })
        .boxed()
}

/// keep at most `budget` nodes and 5 levels (root + depth 4): what does not fit becomes a `Unit`
/// leaf / a dropped flex child (deterministic, so shrinking is unaffected)
fn prune(n: &mut Node, budget: &mut usize, level: usize) {
    let single = matches!(
        n,
        Node::Container { .. }
            | Node::Frame { .. }
            | Node::Dynamic { .. }
            | Node::Tag(_)
            | Node::Either(..)
            | Node::Boxed(_)
            | Node::Arced(_)
            | Node::Opt(Some(_))
    );
    if single && (*budget < 2 || level >= 5) {
        *n = Node::Unit;
    }
    *budget = budget.saturating_sub(1);
    match n {
        Node::Flex { kids, .. } => {
            for mut k in std::mem::take(kids) {
                if *budget == 0 || level >= 5 {
                    break;
                }
                prune(&mut k.node, budget, level + 1);
                kids.push(k);
            }
        }
        Node::Container { child, .. }
        | Node::Frame { child, .. }
        | Node::Dynamic { child, .. }
        | Node::Tag(child)
        | Node::Either(_, child)
        | Node::Boxed(child)
        | Node::Arced(child)
        | Node::Opt(Some(child)) => prune(child, budget, level + 1),
        _ => {}
    }
}

fn jtext_strategy() -> BoxedStrategy<JText> {
    let leaf = prop_oneof![
        4 => text_string().prop_map(JText::Str),
        1 => (sel(&[1usize, 0, 2]), sel(&[1usize, 0, 3]), fallback_string())
            .prop_map(|(h, w, fallback)| JText::Glyph { h, w, fallback }),
    ];
    leaf.prop_recursive(2, 6, 3, |inner| {
        prop_oneof![
            proptest::collection::vec(inner.clone(), 0..3).prop_map(JText::List),
            (opt_face(), proptest::option::of(any::<bool>()), inner)
                .prop_map(|(face, wraps, text)| JText::Obj { face, wraps, text: Box::new(text) }),
        ]
    })
    .boxed()
}

fn jleaf_strategy() -> BoxedStrategy<JNode> {
    let px = || sel(&[1usize, 0, 2, 3, 5, 8]);
    prop_oneof![
        5 => jtext_strategy().prop_map(JNode::Text),
        1 => (0u8..4).prop_map(JNode::Color),
        2 => (sel(&[1usize, 0, 2, 3]), sel(&[1usize, 0, 2, 3, 4]), fallback_string())
            .prop_map(|(h, w, fallback)| JNode::Glyph { h, w, fallback }),
        3 => (any::<bool>(), px(), px(), sel(&[1u8, 3, 4]))
            .prop_map(|(ascii, h, w, channels)| JNode::Image { ascii, h, w, channels }),
        1 => (0i64..3).prop_map(JNode::Ref),
    ]
    .boxed()
}

fn jnode_at(levels: usize) -> BoxedStrategy<JNode> {
    if levels == 0 {
        return jleaf_strategy();
    }
    let inner = jnode_at(levels - 1);
    let factor = sel(&[1.0f64, 0.5, 3.0, 0.0, -2.0, 1e308, -0.5, 1e-300]);
    let kid = prop_oneof![
        2 => inner.clone().prop_map(JKid::Plain),
        4 => (
            proptest::option::weighted(0.6, factor),
            proptest::option::of(align_strategy()),
            opt_face(),
            inner.clone()
        )
            .prop_map(|(flex, align, face, view)| JKid::Ext { flex, align, face, view }),
    ];
    let size = || sel(&[0usize, 1, 2, 3, 5, 10, 30, 100]);
    let node = prop_oneof![
        6 => (
            proptest::option::of(any::<bool>()),
            proptest::option::weighted(0.8, justify_strategy()),
            proptest::collection::vec(kid, 0..=4)
        )
            .prop_map(|(vertical, justify, children)| JNode::Flex { vertical, justify, children }),
        6 => (
            proptest::option::of((size(), size())),
            proptest::option::of(margins_strategy()),
            proptest::option::of(align_strategy()),
            proptest::option::of(align_strategy()),
            opt_face(),
            inner.clone()
        )
            .prop_map(|(size, margins, vertical, horizontal, face, child)| JNode::Container {
                size, margins, vertical, horizontal, face, child: Box::new(child)
            }),
        2 => (0u8..3, inner.clone()).prop_map(|(t, v)| JNode::Tag(t, Box::new(v))),
        1 => inner.prop_map(|v| JNode::Trace(Box::new(v))),
    ];
    let (leaf_w, inner_w) = match levels {
        3 => (1, 10),
        2 => (2, 4),
        _ => (4, 3),
    };
    prop_oneof![leaf_w => jleaf_strategy(), inner_w => node].boxed()
}

fn jnode_strategy() -> BoxedStrategy<JNode> {
    jnode_at(3)
}

impl Property for C10 {
    type Case = Case;

    fn fuzz(&self) -> Option<FuzzSpec> {
        // entropy-driven target: libFuzzer's bytes replace the generator's random numbers
        Some(FuzzSpec { target: "gen", jobs: 8, runs: 150_000, max_len: 4096, seeds: 64 })
    }

    fn id(&self) -> &'static str {
        "C10"
    }

    fn strategy(&self, _tier: Tier) -> BoxedStrategy<Case> {
        let src = prop_oneof![
            3 => node_strategy().prop_map(Src::Built),
            1 => jnode_strategy().prop_map(Src::Json),
        ];
        (
            src,
            proptest::collection::vec(ct_strategy(), 1..=3),
            any::<bool>(),
            // the context of a terminal: 4 ordinary cell sizes; the terminal that does not know its
            // size in pixels (`ViewContext::new` => 0x0 pixels per cell); fewer pixels than cells
            // in one direction (integer division => one zero extent)
            prop_oneof![
                6 => sel(&[(4usize, 2usize), (16, 8), (20, 10), (37, 15)]),
                3 => Just((0usize, 0usize)),
                1 => sel(&[(0usize, 8usize), (16, 0)]),
            ],
            prop_oneof![5 => Just(Win::Max), 1 => Just(Win::Smaller), 1 => Just(Win::Larger), 1 => Just(Win::LayoutSize)],
            // process configuration: a tracing subscriber listening to everything (1 case in 4)
            proptest::bool::weighted(0.25),
        )
            .prop_map(|(src, cts, glyphs, ppc, win, listen)| Case { src, cts, glyphs, ppc, win, listen })
            .boxed()
    }

    fn check(&self, case: &Case) -> Outcome {
        check_case(case)
    }

    fn cases(&self, tier: Tier) -> u32 {
        tier.pick(40_000, 1_000_000)
    }

    fn rule(&self) -> String {
        "generated: view trees (<= 12 nodes, <= 5 levels) of probe / Text / str / String / RGBA / () / Image / ImageAsciiView / Glyph / SurfaceView<Cell> / ScrollBar leaves under \
         Flex (builder and FlexRef; both axes, 6 justifies, 0..=5 children, flex None/0.5/1/3, child face, child align) / Container (size incl. unset, all aligns incl. Offset(+-k, i32::MIN/MAX), margins 0..=5 and rarely huge, face) / \
         Frame / Tag / Dynamic (distinct or identical closure return type) / Option / Either / Box / Arc, every node wrapped in a recording Spy; \
         or (1 in 4) the JSON form (text, flex with raw flex factors -2/0/1e308/..., container, tag, color, glyph, image, image_ascii, trace-layout, ref) through ViewDeserializer; \
         1..=3 constraints per tree with extents from {0,1,2,3,7,20,80} (min<=max; general, loose, tight); glyph capability on/off; context = ViewContext::new of a 24x80-cell terminal with 4 pixel-per-cell settings (6 in 10), \
         with no pixel size at all (pixels 0x0 => 0x0 pixels per cell, 3 in 10) or with fewer pixels than cells in one direction (0x8, 16x0; 1 in 10); \
         render window = max / max-1 / max+3 / root layout size inside a sentinel canvas; \
         1 case in 4 runs (deserialisation, layout, render) while a hand-written tracing::Subscriber is the thread's default: every level enabled, every field of every event / span formatted \
         with {:?} into a discarding sink, so field expressions and Debug impls of the recorded values run (labels tracing-subscriber/...). \
         non-trivial = (built tree with >= 2 levels in which >= 1 probe painted >= 1 cell) or some constraint with a maximal extent <= 1; JSON trees count only if they deserialised".into()
    }

    fn assumptions(&self) -> Vec<String> {
        vec![
            "a view 'paints' a cell iff the cell carries its letter afterwards: only probe leaves (harness views that fill the surface they are handed) are identifiable; what library leaves draw inside their rectangle is not judged".into(),
            "exact fill is demanded only for cells that no later flex sibling of any ancestor (its strip along the flex axis) can repaint; flex is the only view with more than one child".into(),
            "hit-testing: find_path(cell) must end in a layout whose absolute rectangle (sum of positions along the returned path) equals the probe's rectangle; positions are taken relative to the root layout's origin".into(),
            "the size clause is checked for text, flex, container, image, image-ascii, glyph, fill (RGBA, ()) and surface views against the constraint the node itself received (observed by a transparent wrapper); frame, scroll bar, tag, dynamic, option/either are checked for termination and containment only".into(),
            "JSON trees carry no probes or inner spies: termination, containment and the size clause for the root view only; JSON that fails to deserialise is outside the property".into(),
            "unbounded recursion is detected by a nesting counter in the wrapper (limit 200, real nesting <= ~30) instead of letting the stack overflow".into(),
            "harness built with overflow checks: an arithmetic wrap in the library surfaces as a panic".into(),
            "'never panics' names no process configuration: it is read over processes with and without a `tracing` subscriber installed (most demanding ordinary one: all levels, all fields formatted, output discarded; per thread through with_default, callsite interest `sometimes`, so the other shard threads are not affected). Only the existing oracles are applied under it; a failure is run again without the subscriber and keeps its plain signature if it fails there too, else it is prefixed `tracing-subscriber/`".into(),
            "'any tree ... never panics' is read over every context ViewContext::new can produce: a terminal that reports no pixel size (src/unix.rs handles `pixels.is_empty()`; TerminalSize::pixels_per_cell then yields 0x0) is a legal configuration; what an image, glyph or frame draws there is not judged, only termination, containment and the size clause".into(),
        ]
    }
}
